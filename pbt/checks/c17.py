"""C17 -- sampling utilities: stochastic_universal_sampling, tiled_choice, axis_shuffle, outcross_shuffle.

Oracles: exact-rational expected counts (pbt/oracles/sus_ref.py), multiset counting, per-slice permutation test,
exhaustive pair-exchange local-optimality test.  Random numbers consumed by pybrops come from numpy generators
seeded by Hypothesis-drawn integers, wrapped in recording subclasses (they pass pybrops' isinstance checks), or,
for SUS, from a scripted RandomState whose ``uniform`` places the pointer offset at a chosen fraction of ptr_dist.

Sub-checks
----------
sus            generated weights/sizes/generators, offsets anywhere in [2^-36, 1-2^-36] of the pointer spacing
sus_boundary   scripted offsets within 2^-40 * ptr_dist of 0 or of ptr_dist (finding F-C17-a lives here)
sus_total      weight vectors whose total is T*(1 +- dev), T a round value (1, 1/2, 2, 10, 100, 1000, 10^6, k, 1/k ...),
               dev from 1e-16 to 2e-2 (decimals that do not quite add up, edited / rescaled / float32-rounded normalised
               vectors), with 10 ... 2.5 million draws chosen so that k*dev is 1/2 ... 200 in most cases
tiled          tiled_choice, both replace modes, optional p
tiled_docforms the two documented argument forms ``a`` Integral and ``size=None`` (finding F-C17-b)
axis_shuffle   arrays <= 4-D, axis int / tuple (never all axes)
outcross_grid  exhaustive: all tables over {0,1,2} of shape r x c, r<=3, c<=2, three generator seeds each
outcross       generated tables 1-6 x 1-4 with heavy repetition
outcross_wide  generated wide tables (12-60 parents per cross, 2-4 crosses) built from run-structured families, so
               that the descent needs many more accepted exchanges than there are crosses
outcross_wide_fixed  a few fixed wide tables with long climbs; the expensive ones only in the thorough tier
session_outcross / session_sus / session_tiled / session_axis
               SESSIONS: 2-6 calls of one utility executed one after the other in the same (forked, otherwise
               untouched) process; every call is judged on its own by the per-call oracle above.  The calls of one
               session differ in integer dtype (int8 ... int64, unsigned too), share or do not share their shape, and
               use id ranges from 0..5 up to beyond 2^32, including distinct ids that are congruent modulo 2^8, 2^16
               and 2^32.  Whatever a call leaves behind in the process (module-level caches, scratch buffers, memoised
               helpers) is therefore met by a later call with a different dtype / range / shape
"""
import collections
import itertools
import math
import os
import pickle
import signal
import traceback
from fractions import Fraction

import numpy
from hypothesis import strategies as st

from pbt import compat  # noqa: F401
from pbt.core import SubCheck, Violation, Reject
from pbt.oracles import sus_ref

from pybrops.core.random.sampling import stochastic_universal_sampling
from pybrops.core.random.sampling import tiled_choice
from pybrops.core.random.sampling import axis_shuffle
from pybrops.core.random.sampling import outcross_shuffle

ASSUMPTIONS = [
    "SUS: weights are float64, non-negative, positive sum, n <= 10, magnitudes 1e-12..1e12; size is an int or a 1-D/"
    "2-D tuple with 1 <= k <= 40; k = 0 and size=None are outside the domain",
    "SUS: copy numbers are compared with floor/ceil of e_i = k*w_i/sum(w) evaluated in exact rational arithmetic on "
    "the binary values of the weights; when e_i is within 64*n*k*2^-52 of an integer without being one the range is "
    "widened by one on that side (floating-point pointer positions cannot resolve it); an e_i that is exactly an "
    "integer is required exactly unless a pointer lies (mathematically) on or within 1e-9*sum(w) of a possible "
    "interval boundary -- any subset sum of the weights, so the guard does not depend on the layout order -- or the "
    "offset is outside [2^-36, 1-2^-36] of the spacing; the pointer offset is observed through a recording generator "
    "subclass.  In those degenerate cases (e.g. weights 9,8,6,1, k=36, offset = spacing/2: pointer 13 sits exactly "
    "on the boundary 9) an integer expectation m may come out as m-1 or m+1 and the range is widened accordingly",
    "SUS boundary sub-check: offsets within 2^-40 of an end of [0, ptr_dist); only output shape, membership, "
    "zero-weight exclusion and the widened floor/ceil range (integer expectations +-1) are asserted there",
    "SUS totals sub-check: n <= 10 float64 weights (proportions of 1..1000, ties, zeros) whose exact total is "
    "T*(1+-dev) with T in {1, 1/2, 2, 10, 100, 1000, 1/10, 1/1000, 10^6, k, 1/k} and dev <= 2 %; 10 <= k <= 2.5e6 in "
    "1-D/2-D/3-D shapes; the same floor/ceil range with the slack 64*n*k*2^-52 (at k = 2.5e6, n = 10: 3.6e-7 of a draw); "
    "an expectation that is an exact integer admits +-1 there (no pointer guard is evaluated for millions of pointers)",
    "tiled_choice(replace=False, p): p has at least `remainder` non-zero entries (numpy rejects the call otherwise)",
    "axis_shuffle: axes are non-negative, distinct, and never all axes of the array (the function shuffles along "
    "the first axis that is NOT listed; negative axes are not documented and are not generated)",
    "axis_shuffle 'did not shuffle' clause: asserted only when the probability that a uniform shuffle leaves every "
    "slice of the (distinct-valued) array unchanged is below 1e-12",
    "outcross_shuffle: tables are C-contiguous integer arrays as produced by the library's own callers "
    "(the function works on xconfig.ravel(), which is a view only for contiguous input)",
    "outcross_shuffle wide tables: sizes are bounded by cost (one pass evaluates (r*c)^2/2 exchanges with r "
    "numpy.unique calls each): quick tier r*c <= 144, thorough tier r*c <= 240",
    "sessions: several calls of one utility are executed one after the other in a forked child of the worker process "
    "(the worker never calls the utility itself in these sub-checks), so a session starts from the process state left "
    "by the import of the check module and its outcome depends on the case only; each call is judged on its own by the "
    "per-call oracle and nothing is asserted about the relation between calls.  Integer dtypes int8..int64 / "
    "uint8..uint32, non-negative ids up to 2^62+2^34; a requested dtype is used when the generated values fit it "
    "(otherwise int64, or the large part of the id is dropped)",
]

EPS = 2.0 ** -52
ZONE = 2.0 ** -40          # signature of F-C17-a: offset within ZONE*ptr_dist of an end of [0, ptr_dist)
SAFE = 2.0 ** -36          # the exact-integer clause is asserted only for offsets in [SAFE, 1-SAFE]*ptr_dist
SHUFFLE_LIMIT = 5000       # default cap on shuffle() calls per generator (guard against a non-terminating search)


class ShuffleBudgetExceeded(Exception):
    pass


# ------------------------------------------------------------------------------------------------ generators
class RecRandomState(numpy.random.RandomState):
    """Seeded RandomState that records uniform() draws and counts shuffle() calls."""

    def __init__(self, seed):
        numpy.random.RandomState.__init__(self, seed)
        self.uniform_calls = []
        self.nshuffle = 0
        self.shuffle_limit = SHUFFLE_LIMIT

    def uniform(self, low=0.0, high=1.0, size=None):
        v = numpy.random.RandomState.uniform(self, low, high, size)
        if size is None:
            self.uniform_calls.append((float(low), float(high), float(v)))
        return v

    def shuffle(self, x):
        self.nshuffle += 1
        if self.nshuffle > self.shuffle_limit:
            raise ShuffleBudgetExceeded()
        return numpy.random.RandomState.shuffle(self, x)


class RecGenerator(numpy.random.Generator):
    def __init__(self, seed):
        numpy.random.Generator.__init__(self, numpy.random.PCG64(seed))
        self.uniform_calls = []
        self.nshuffle = 0
        self.shuffle_limit = SHUFFLE_LIMIT

    def uniform(self, low=0.0, high=1.0, size=None):
        v = numpy.random.Generator.uniform(self, low, high, size)
        if size is None:
            self.uniform_calls.append((float(low), float(high), float(v)))
        return v

    def shuffle(self, x, axis=0):
        self.nshuffle += 1
        if self.nshuffle > self.shuffle_limit:
            raise ShuffleBudgetExceeded()
        return numpy.random.Generator.shuffle(self, x, axis)


def place(spec, low, high):
    """Scripted value in [low, high) for a placement spec (JSON list)."""
    kind, arg = spec[0], spec[1]
    w = high - low
    if kind == "frac":
        v = low + float(arg) * w
    elif kind == "pow2_low":
        v = low + w * 2.0 ** (-int(arg))
    elif kind == "pow2_high":
        v = high - w * 2.0 ** (-int(arg))
    elif kind == "ulps_low":
        v = low
        for _ in range(int(arg)):
            v = float(numpy.nextafter(v, high))
    elif kind == "ulps_high":
        v = high
        for _ in range(max(1, int(arg))):
            v = float(numpy.nextafter(v, low))
    else:
        raise ValueError(spec)
    if v >= high:
        v = float(numpy.nextafter(high, low))
    if v < low:
        v = low
    return v


def spec_in_zone(spec):
    """Input-side signature: is the scripted offset within ZONE*(high-low) of an end?"""
    kind, arg = spec[0], spec[1]
    if kind == "frac":
        return float(arg) <= ZONE or float(arg) >= 1.0 - ZONE
    if kind in ("pow2_low", "pow2_high"):
        return int(arg) >= 40
    return True     # a few ulps from an end


class ScriptedRandomState(RecRandomState):
    """``uniform(low, high)`` returns the scripted placement; every other method is the real seeded stream."""

    def __init__(self, seed, spec):
        RecRandomState.__init__(self, seed)
        self.spec = spec

    def uniform(self, low=0.0, high=1.0, size=None):
        if size is not None:
            return RecRandomState.uniform(self, low, high, size)
        v = place(self.spec, float(low), float(high))
        self.uniform_calls.append((float(low), float(high), v))
        return v


def make_rng(spec):
    if spec["kind"] == "rs":
        return RecRandomState(spec["seed"])
    if spec["kind"] == "gen":
        return RecGenerator(spec["seed"])
    if spec["kind"] == "scripted":
        return ScriptedRandomState(spec["seed"], spec["place"])
    raise ValueError(spec)


_seed = st.integers(0, 2 ** 32 - 1)
real_rng = st.builds(lambda k, s: {"kind": k, "seed": s}, st.sampled_from(["rs", "gen"]), _seed)
safe_place = st.one_of(
    st.builds(lambda f: ["frac", f], st.sampled_from([0.5, 0.25, 0.75, 0.1, 0.9, 1.0 / 3.0, 0.001, 0.999])),
    st.builds(lambda f: ["frac", f], st.floats(SAFE, 1.0 - SAFE)),
    st.builds(lambda e: ["pow2_low", e], st.integers(1, 36)),
    st.builds(lambda e: ["pow2_high", e], st.integers(1, 36)),
)
zone_place = st.one_of(
    st.builds(lambda j: ["ulps_high", j], st.integers(1, 8)),
    st.builds(lambda j: ["ulps_low", j], st.integers(0, 8)),
    st.builds(lambda e: ["pow2_high", e], st.integers(40, 60)),
    st.builds(lambda e: ["pow2_low", e], st.one_of(st.integers(40, 60), st.integers(61, 1100))),
    st.just(["frac", 0.0]),
)


# ------------------------------------------------------------------------------------------------ SUS
@st.composite
def weights_strategy(draw):
    n = draw(st.sampled_from([1, 2, 2, 3, 3, 4, 5, 6, 8, 10]))
    wkind = draw(st.sampled_from(["int", "int", "equal", "decimal", "tiny", "huge", "pow2", "mixed", "float"]))
    w = []
    for _ in range(n):
        m = draw(st.integers(0, 9))
        if wkind == "int":
            w.append(float(m))
        elif wkind == "equal":
            w.append(1.0)
        elif wkind == "decimal":
            w.append(m / 10.0)
        elif wkind == "tiny":
            w.append(m * 1e-12)
        elif wkind == "huge":
            w.append(m * 1e12)
        elif wkind == "pow2":
            w.append(m * 2.0 ** draw(st.integers(-3, 3)))
        elif wkind == "mixed":
            w.append(m * 10.0 ** draw(st.sampled_from([-12, -6, 0, 6, 12])))
        else:
            w.append(draw(st.floats(1e-12, 1e12, allow_nan=False)))
    if wkind == "equal":
        scale = draw(st.sampled_from([1.0, 0.1, 0.3, 1e-12, 7e11]))
        w = [scale] * n
    ties = [[draw(st.integers(0, 99)), draw(st.integers(0, 99))] for _ in range(draw(st.integers(0, 2)))]
    zeros = [draw(st.integers(0, 99)) for _ in range(draw(st.integers(0, 2)))]
    force = draw(st.integers(0, 99))
    return {"wkind": wkind, "w": w, "ties": ties, "zeros": zeros, "force": force}


def build_weights(wc):
    w = [float(x) for x in wc["w"]]
    n = len(w)
    for s, d in wc["ties"]:
        w[d % n] = w[s % n]
    for z in wc["zeros"]:
        w[z % n] = 0.0
    if not any(x > 0 for x in w):
        nz = [float(x) for x in wc["w"] if float(x) > 0]
        w[wc["force"] % n] = nz[0] if nz else 1.0
    return w


@st.composite
def size_strategy(draw, kmax=40):
    form = draw(st.sampled_from(["int", "int", "1d", "2d"]))
    _kk = st.one_of(st.integers(2, kmax), st.integers(2, kmax), st.integers(1, 8))
    if form == "int":
        return draw(_kk)
    if form == "1d":
        return [draw(_kk)]
    r = draw(st.integers(1, 8))
    c = draw(st.integers(1, max(1, kmax // r)))
    if r * c == 1:
        c = 2
    return [r, c]


@st.composite
def sus_case(draw, zone=False):
    wc = draw(weights_strategy())
    size = draw(size_strategy())
    if zone:
        rng = {"kind": "scripted", "seed": draw(_seed), "place": draw(zone_place)}
    else:
        rng = draw(st.one_of(real_rng, real_rng,
                             st.builds(lambda s, p: {"kind": "scripted", "seed": s, "place": p}, _seed, safe_place)))
    labels = draw(st.sampled_from(["arange", "offset"]))
    return {"weights": wc, "size": size, "rng": rng, "labels": labels}


def fits(values, dtype):
    """do all (python int) values fit into the integer dtype?"""
    info = numpy.iinfo(dtype)
    return all(info.min <= int(v) <= info.max for v in values)


def cast_fit(values, dtype, shape=None):
    """Integer array of the requested dtype when every value fits, int64 otherwise (so that every case is valid)."""
    values = [int(v) for v in values]
    out = numpy.array(values, dtype=dtype if fits(values, dtype) else "int64")
    return out if shape is None else out.reshape(shape)


def int_labels(n, kind, dtype):
    """Element labels for SUS / option values for tiled_choice: n distinct integers.

    arange  0..n-1;   offset  100+7i;   big  top-256i where top = min(2^40, largest value of the dtype): ids far
    beyond 127 / 32767 that are all congruent modulo 256.  A kind whose values do not fit the dtype falls back to
    the next smaller kind."""
    top = min(2 ** 40, int(numpy.iinfo(dtype).max))
    candidates = {"big": [top - 256 * i for i in range(n)], "offset": [100 + 7 * i for i in range(n)],
                  "arange": list(range(n))}
    order = ["big", "offset", "arange"]
    for k in order[order.index(kind):]:
        vals = candidates[k]
        if min(vals) >= 0 and fits(vals, dtype):
            return numpy.array(vals, dtype=dtype)
    return numpy.arange(n, dtype="int64")


def _size_arg(size):
    return int(size) if isinstance(size, int) else tuple(int(x) for x in size)


def _k(size):
    return int(size) if isinstance(size, int) else int(numpy.prod([int(x) for x in size]))


def sus_common(case, ctx):
    w = build_weights(case["weights"])
    n = len(w)
    size = _size_arg(case["size"])
    k = _k(case["size"])
    a = int_labels(n, case["labels"], case.get("adtype", "int64"))
    p = numpy.array(w, dtype="float64")
    rng = make_rng(case["rng"])
    e = sus_ref.expected_counts(w, k)
    pos = sorted(set(x for x in w if x > 0))
    ctx.label("rng=" + case["rng"]["kind"])
    ctx.label("labels_dtype=" + str(a.dtype), "adtype" in case)
    ctx.label("wkind=" + case["weights"]["wkind"])
    ctx.label("size_form=" + ("int" if isinstance(size, int) else "%dd" % len(size)))
    ctx.label("n=1", n == 1)
    ctx.label("k=1", k == 1)
    ctx.label("has_zero_weight", any(x == 0 for x in w))
    ctx.label("has_tied_weights", len(set(w)) < n)
    ctx.label("some_exact_integer_expectation", any(x.denominator == 1 and x > 0 for x in e))
    ctx.label("some_expectation_below_one", any(0 < x < 1 for x in e))
    ctx.label("weights_span_1e12", len(pos) > 1 and pos[-1] / pos[0] >= 1e12)
    ctx.nontrivial(len(pos) >= 2 and k >= 2)
    return w, n, size, k, a, p, rng, e


def sus_clauses(out, w, n, size, k, a, p, e, ctx, strict, tag):
    shape = (size,) if isinstance(size, int) else tuple(size)
    ctx.check(isinstance(out, numpy.ndarray) and out.shape == shape, tag + "shape",
              lambda: "shape %s, requested %s" % (getattr(out, "shape", None), shape))
    flat = [int(x) for x in out.ravel()]
    lab = [int(x) for x in a]
    ctx.check(all(x in set(lab) for x in flat), tag + "draws_are_elements_of_a", lambda: str(flat))
    cnt = collections.Counter(flat)
    counts = [cnt.get(l, 0) for l in lab]
    ctx.check(sum(counts) == k, tag + "number_of_draws", "%d draws, %d requested" % (sum(counts), k))
    zero_drawn = [i for i in range(n) if w[i] == 0.0 and counts[i] > 0]
    ctx.check(not zero_drawn, tag + "zero_weight_element_drawn",
              lambda: "weights %s size %s counts %s" % (w, size, counts))
    slack = Fraction(64 * n * k) * Fraction(EPS)
    bounds = sus_ref.count_bounds(w, k, slack, strict_integer=strict)
    if not strict:
        # near an end of the offset range every pointer of an integer-expectation layout sits on a boundary
        bounds = [(lo, hi) if w[i] == 0.0 else (max(0, math.floor(e[i] - slack) - (1 if e[i].denominator == 1 else 0)),
                                              min(k, math.ceil(e[i] + slack) + (1 if e[i].denominator == 1 else 0)))
                  for i, (lo, hi) in enumerate(bounds)]
    bad = [i for i in range(n) if not bounds[i][0] <= counts[i] <= bounds[i][1]]
    ctx.check(not bad, tag + "count_is_floor_or_ceil_of_expectation",
              lambda: "weights %s size %s: counts %s, expected %s, admissible %s (elements %s)"
              % (w, size, counts, [float(x) for x in e], bounds, bad))
    return counts


def check_sus(case, ctx):
    w, n, size, k, a, p, rng, e = sus_common(case, ctx)
    a0, p0 = a.copy(), p.copy()
    out = stochastic_universal_sampling(a, p, size, rng)
    # Where did the pointers fall?  Observed through the recording generator (the generator state is part of the
    # input, not of the outcome).  The exact-integer clause is asserted only when no pointer lies within
    # 1e-9*sum(w) of a possible interval boundary.  Whatever order the elements are laid out in, a boundary is the
    # sum of a subset of the weights, so the guard tests every subset sum (<= 1024 of them) against every pointer.
    # (Rounding noise of pointer and boundary positions is <= ~n*k*2^-52*sum(w) << 1e-9*sum(w).)
    strict = False
    if len(rng.uniform_calls) == 1:
        lo, hi, v = rng.uniform_calls[0]
        if hi > lo and lo == 0.0:
            r = (v - lo) / (hi - lo)
            ctx.label("offset_below_2^-20_of_spacing", r < 2.0 ** -20)
            ctx.label("offset_above_1-2^-20_of_spacing", r > 1.0 - 2.0 ** -20)
            ptrs = v + (hi - lo) * numpy.arange(k, dtype="float64")
            sums = numpy.zeros(1)
            for x in w:
                if x > 0:
                    sums = numpy.concatenate([sums, sums + x])
            gap = float(numpy.min(numpy.abs(ptrs[:, None] - sums[None, :])))
            degenerate = gap <= 1e-9 * float(sum(w))
            ctx.label("a_pointer_coincides_with_a_possible_boundary", degenerate)
            strict = (SAFE <= r <= 1.0 - SAFE) and not degenerate
    ctx.label("exact_integer_clause_asserted", strict)
    sus_clauses(out, w, n, size, k, a, p, e, ctx, strict, "sus.")
    ctx.check(numpy.array_equal(a, a0) and numpy.array_equal(p, p0), "sus.inputs_mutated")


def check_sus_boundary(case, ctx):
    w, n, size, k, a, p, rng, e = sus_common(case, ctx)
    spec = case["rng"]["place"]
    in_zone = spec_in_zone(spec)
    ctx.label("place=" + spec[0])
    if ctx.known("F-C17-a", in_zone):
        try:
            out = stochastic_universal_sampling(a, p, size, rng)
        except ValueError as ex:
            msg = str(ex)
            if "cannot reshape array of size %d " % (k - 1) in msg or "cannot reshape array of size %d " % (k + 1) in msg:
                ctx.label("known_defect_manifested:wrong_number_of_pointers")
                return
            raise
        except IndexError as ex:
            if "out of bounds" in str(ex):
                ctx.label("known_defect_manifested:walk_past_last_element")
                return
            raise
    else:
        out = stochastic_universal_sampling(a, p, size, rng)
    ctx.label("no_exception")
    sus_clauses(out, w, n, size, k, a, p, e, ctx, False, "sus_boundary.")


# ------------------------------------------------------------------------------------------------ SUS: totals near a round value
# Weight vectors whose TOTAL is T*(1 +- dev) for a "round" T (1 most of the time: probabilities written with a few decimals,
# normalised vectors that were edited, scaled or rounded to float32 afterwards; also 1/2, 2, 10, 100 (percentages), 1000,
# 1/10, 1/1000, 10^6, k and 1/k) and a relative deviation dev between 1e-16 and 2e-2, combined with 10 ... 2.5 million
# draws.  An expected count is k*w_i/sum(w): a relative error dev of the total moves it by k*dev*w_i/sum(w) draws, so
# whether the total is *honoured exactly* (rather than taken for the round value it is close to) shows in the floor/ceil
# clause as soon as k*dev reaches a few units.  The draw count is therefore tied to the deviation (k*dev from 1/2 to
# 200) in most cases.  Cost: the code under test walks k pointers in Python (about 0.7 s per million); the oracle needs n
# exact rational expectations and n vectorised counts.
TOTAL_KMAX = 2500000
TOTAL_TARGETS = ("1", "1", "1", "1", "1", "1", "1/2", "2", "10", "100", "100", "1000", "1/1000", "1/10", "1000000",
                 "k", "1/k")
TOTAL_MODES = ("scaled", "scaled", "scaled", "one_entry", "decimal", "decimal", "decimal", "float32")
TOTAL_DEV_EXP = (2, 3, 3, 4, 4, 5, 5, 5, 5, 5, 6, 6, 7, 8, 10, 12, 14, 16)
TOTAL_DEV_MANT = ("1", "1", "1", "2", "5", "3/2", "3", "7", "99/10")
TOTAL_KDEV = ("1/2", "1", "3/2", "2", "3", "4", "6", "8", "16", "50", "200")
_K_BUCKETS = ([(1.0, 3.5)] * 7 + [(3.5, 5.0)] * 6 + [(5.0, 5.8)] * 5 + [(5.8, math.log10(TOTAL_KMAX))] * 2)


@st.composite
def sus_total_case(draw):
    n = draw(st.sampled_from([2, 3, 3, 3, 4, 5, 6, 8, 10]))
    parts = [draw(st.integers(1, 1000)) for _ in range(n)]
    ties = [[draw(st.integers(0, 99)), draw(st.integers(0, 99))] for _ in range(draw(st.sampled_from([0, 0, 0, 1, 2])))]
    zeros = [draw(st.integers(0, 99)) for _ in range(draw(st.sampled_from([0, 0, 0, 1, 2])))]
    lo, hi = draw(st.sampled_from(_K_BUCKETS))
    k = min(TOTAL_KMAX, max(10, int(round(10.0 ** draw(st.floats(lo, hi))))))
    rng = draw(st.one_of(real_rng, real_rng,
                         st.builds(lambda s, p: {"kind": "scripted", "seed": s, "place": p}, _seed, safe_place)))
    return {"parts": parts, "ties": ties, "zeros": zeros, "force": draw(st.integers(0, 99)), "k": k,
            "mode": draw(st.sampled_from(TOTAL_MODES)), "target": draw(st.sampled_from(TOTAL_TARGETS)),
            "kdev": draw(st.sampled_from(TOTAL_KDEV)), "sign": draw(st.sampled_from([-1, 1])),
            "decimals": draw(st.integers(3, 8)), "units_off": draw(st.sampled_from([1, 1, 1, 2, 3, 5, 9, 10, 11, 50, 99])),
            "k_from": draw(st.sampled_from(["dev", "dev", "dev", "k"])),
            "dev_exp": draw(st.sampled_from(TOTAL_DEV_EXP)), "dev_mant": draw(st.sampled_from(TOTAL_DEV_MANT)),
            "entry": draw(st.integers(0, 99)),
            "size_form": draw(st.sampled_from(["int", "int", "1d", "2d", "2d", "3d"])),
            "rows": draw(st.sampled_from([1, 2, 3, 4, 5, 7, 8, 10, 16, 100, 1000])),
            "rng": rng, "labels": draw(st.sampled_from(["arange", "offset"]))}


def total_shape(form, rows, k0):
    """size argument (int or list) with about k0 draws in the requested form, and the exact number of draws"""
    k0, rows = int(k0), max(1, int(rows))
    if form == "int":
        return k0, k0
    if form == "1d":
        return [k0], k0
    if form == "2d":
        r = min(rows, k0)
        c = max(1, k0 // r)
        return [r, c], r * c
    r = min(rows, max(1, k0 // 2))
    c = max(1, k0 // (2 * r))
    return [2, r, c], 2 * r * c


def build_total(case):
    """-> (weights as python floats, size argument, k, round value T, exact relative deviation of the total from T).

    proportions m_i/M (integers, ties and zeros forced as in the other SUS sub-checks) are turned into weights by
    scaled     w_i = T*(1 +- d)*m_i/M, every weight rounded once from the rational number
    one_entry  w_i = T*m_i/M, one positive entry moved by +-d*T (a normalised vector edited afterwards)
    decimal    probabilities written with 3-8 decimals whose units add up to 10^D +- j (j = 1 ... 99, at most 2 %),
               times T:  d = j/10^D
    float32    T*m_i/M rounded to float32 and passed as float64 (total off by about 1e-8)
    Deviation and number of draws: with k_from == "dev" the deviation comes first (d = mantissa*10^-x, x = 2 ... 16)
    and the number of draws is kdev/d when that is affordable (<= TOTAL_KMAX; otherwise the drawn k is used); with
    k_from == "k" the drawn k comes first and d = kdev/k (scaled, one_entry).  d is at most 1/50.
    """
    m = [int(x) for x in case["parts"]]
    n = len(m)
    for s_, d_ in case["ties"]:
        m[d_ % n] = m[s_ % n]
    for z in case["zeros"]:
        m[z % n] = 0
    if not any(x > 0 for x in m):
        m[case["force"] % n] = max(1, int(case["parts"][case["force"] % n]))
    mode = case["mode"]
    sgn = 1 if int(case["sign"]) > 0 else -1
    kdev = Fraction(case["kdev"])
    k0 = int(case["k"])
    unit = 10 ** int(case["decimals"])
    off = max(1, min(int(case["units_off"]), unit // 50))
    d = Fraction(off, unit) if mode == "decimal" else \
        min(Fraction(case["dev_mant"]) / 10 ** int(case["dev_exp"]), Fraction(1, 50))
    if case["k_from"] == "dev" and mode != "float32":
        kk = math.ceil(kdev / d)
        if 10 <= kk <= TOTAL_KMAX:
            k0 = kk
    size, k = total_shape(case["size_form"], case["rows"], k0)
    T = Fraction(k) if case["target"] == "k" else Fraction(1, k) if case["target"] == "1/k" else Fraction(case["target"])
    M = sum(m)
    b = [Fraction(x, M) for x in m]
    if case["k_from"] != "dev":
        d = min(kdev / k, Fraction(1, 50))
    if mode == "scaled":
        w = [float(x * T * (1 + sgn * d)) for x in b]
    elif mode == "one_entry":
        pos = [i for i in range(n) if m[i] > 0]
        i = pos[int(case["entry"]) % len(pos)]
        if b[i] + sgn * d <= 0:
            sgn = 1
        w = [float(x * T) for x in b]
        w[i] = float((b[i] + sgn * d) * T)
    elif mode == "decimal":
        u = [int(x * unit) for x in b]                   # floor; zero proportions stay zero
        big = max(range(n), key=lambda i: u[i])
        u[big] += unit + sgn * off - sum(u)              # >= unit/n - n - off > 0
        w = [float(Fraction(x, unit) * T) for x in u]
    elif mode == "float32":
        w = [float(numpy.float32(float(x * T))) for x in b]
    else:
        raise ValueError(mode)
    dev = abs(sum(Fraction(x) for x in w) / T - 1)
    return w, size, k, T, dev


def check_sus_total(case, ctx):
    w, size_spec, k, T, dev = build_total(case)
    n = len(w)
    size = _size_arg(size_spec)
    a = int_labels(n, case["labels"], "int64")
    p = numpy.array(w, dtype="float64")
    rng = make_rng(case["rng"])
    e = sus_ref.expected_counts(w, k)
    npos = len(set(x for x in w if x > 0))
    kd = k * dev
    ctx.label("rng=" + case["rng"]["kind"])
    ctx.label("mode=" + case["mode"])
    ctx.label("total_near=" + case["target"])
    ctx.label("total_near_a_round_value_other_than_1", case["target"] != "1")
    ctx.label("size_form=" + ("int" if isinstance(size, int) else "%dd" % len(size)))
    ctx.label("total_is_exactly_round", dev == 0)
    ctx.label("total_above_round_value", sum(Fraction(x) for x in w) > T)
    ctx.label("total_below_round_value", sum(Fraction(x) for x in w) < T)
    if dev > 0:
        ctx.label("dev~1e%+03d" % math.floor(math.log10(float(dev))))
    ctx.label("dev<=1e-12", 0 < dev <= Fraction(1, 10 ** 12))
    ctx.label("dev_within_1e-7..1e-5", Fraction(1, 10 ** 7) <= dev <= Fraction(1, 10 ** 5))
    ctx.label("k*dev>=1", kd >= 1)
    ctx.label("k*dev>=4", kd >= 4)
    ctx.label("k*dev>=2_and_dev<=1e-5", kd >= 2 and dev <= Fraction(1, 10 ** 5))
    ctx.label("k*dev>=2_and_dev<=1e-3", kd >= 2 and dev <= Fraction(1, 10 ** 3))
    ctx.label("k>=1e5", k >= 10 ** 5)
    ctx.label("k>=1e6", k >= 10 ** 6)
    ctx.label("has_zero_weight", any(x == 0 for x in w))
    ctx.label("has_tied_weights", len(set(w)) < n)
    ctx.note("k", k)
    ctx.note("dev", float(dev))
    ctx.nontrivial(npos >= 2 and kd >= 1)
    p0 = p.copy()
    out = stochastic_universal_sampling(a, p, size, rng)
    shape = (size,) if isinstance(size, int) else tuple(size)
    ctx.check(isinstance(out, numpy.ndarray) and out.shape == shape, "sus_total.shape",
              lambda: "shape %s, requested %s" % (getattr(out, "shape", None), shape))
    flat = numpy.asarray(out).ravel()
    counts = [int(numpy.count_nonzero(flat == lab)) for lab in a]        # the labels are distinct
    ctx.check(sum(counts) == flat.size, "sus_total.draws_are_elements_of_a",
              lambda: "%d of %d draws are not elements of a" % (flat.size - sum(counts), flat.size))
    ctx.check(flat.size == k, "sus_total.number_of_draws", "%d draws, %d requested" % (flat.size, k))
    zero_drawn = [i for i in range(n) if w[i] == 0.0 and counts[i] > 0]
    ctx.check(not zero_drawn, "sus_total.zero_weight_element_drawn",
              lambda: "weights %s size %s counts %s" % (w, size, counts))
    # floor/ceil of the exact rational expectation; an expectation within rounding noise of an integer (64*n*k ulp,
    # the noise of k pointer positions and n cumulative sums grows linearly with k) admits the neighbour on that side;
    # exact-integer expectations are not asserted exactly here (that is done in `sus` with the pointer guard)
    slack = Fraction(64 * n * k) * Fraction(EPS)
    bounds = sus_ref.count_bounds(w, k, slack, strict_integer=False)
    bad = [i for i in range(n) if not bounds[i][0] <= counts[i] <= bounds[i][1]]
    ctx.check(not bad, "sus_total.count_is_floor_or_ceil_of_expectation",
              lambda: "weights %s (total = %s*(1%+.3e)) size %s: counts %s, expected %s, admissible %s (elements %s)"
              % (w, case["target"], float(sum(Fraction(x) for x in w) / T - 1), size, counts,
                 ["%.6f" % float(x) for x in e], bounds, bad))
    ctx.check(numpy.array_equal(p, p0), "sus_total.inputs_mutated")



# ------------------------------------------------------------------------------------------------ tiled_choice
@st.composite
def tiled_case(draw):
    nopt = draw(st.integers(1, 8))
    okind = draw(st.sampled_from(["arange", "labels", "labels", "dups", "float"]))
    if okind == "dups":
        opts = [draw(st.integers(0, 3)) for _ in range(nopt)]
    else:
        opts = list(range(nopt))
    size = draw(size_strategy())
    replace = draw(st.booleans())
    use_p = draw(st.sampled_from([False, False, True]))
    pw = [draw(st.integers(1, 5)) for _ in range(nopt)]
    pz = [draw(st.integers(0, 99)) for _ in range(draw(st.integers(0, 3)))] if use_p else []
    return {"okind": okind, "opts": opts, "size": size, "replace": replace, "use_p": use_p, "pw": pw, "pz": pz,
            "rng": draw(real_rng)}


def check_tiled(case, ctx):
    okind = case["okind"]
    nopt = len(case["opts"])
    dt = case.get("dtype", "int64")       # sessions only: integer dtype of the option array (honoured when the values fit)
    if okind == "arange":
        a = cast_fit(range(nopt), dt)
    elif okind == "labels":
        a = cast_fit([1000 - 13 * i for i in range(nopt)], dt)
    elif okind == "big":                  # sessions only: ids far beyond 127 / 32767, all congruent modulo 256
        a = int_labels(nopt, "big", dt)
    elif okind == "float":
        a = (0.5 + numpy.arange(nopt)).astype("float64")
    else:
        a = cast_fit(case["opts"], dt)
    size = _size_arg(case["size"])
    ns = _k(case["size"])
    shape = (size,) if isinstance(size, int) else tuple(size)
    replace = bool(case["replace"])
    q, re = divmod(ns, nopt)
    p = None
    pw = [float(x) for x in case["pw"]]
    if case["use_p"]:
        need = max(1, re if not replace else 1)
        for z in case["pz"]:
            if sum(1 for x in pw if x > 0) > need:
                pw[z % nopt] = 0.0
        tot = sum(pw)
        p = numpy.array([x / tot for x in pw], dtype="float64")
    rng = make_rng(case["rng"])
    ctx.label("replace" if replace else "no_replace")
    ctx.label("with_p", p is not None)
    ctx.label("p_has_zero", p is not None and any(x == 0 for x in pw))
    ctx.label("options=" + okind)
    ctx.label("options_dtype=" + str(a.dtype), "dtype" in case)
    ctx.label("whole_tiles_only", re == 0 and not replace)
    ctx.label("fewer_samples_than_options", q == 0 and not replace)
    ctx.label("tiles_and_remainder", q >= 1 and re >= 1 and not replace)
    ctx.nontrivial(not replace and q >= 1 and re >= 1)
    a0 = a.copy()
    out = tiled_choice(a, size, replace, p, rng)
    ctx.check(isinstance(out, numpy.ndarray) and out.shape == shape, "tiled.shape",
              lambda: "shape %s requested %s" % (getattr(out, "shape", None), shape))
    ctx.check(out.dtype == a.dtype, "tiled.dtype", lambda: "%s vs %s" % (out.dtype, a.dtype))
    ctx.check(numpy.array_equal(a, a0), "tiled.options_mutated")
    flat = out.ravel().tolist()
    vals = a.tolist()
    ctx.check(all(x in set(vals) for x in flat), "tiled.draws_are_options", lambda: str(flat))
    cnt = collections.Counter(flat)
    mult = collections.Counter(vals)
    if p is not None:
        zero_vals = set(v for v, x in zip(vals, pw) if x == 0) - set(v for v, x in zip(vals, pw) if x > 0)
    else:
        zero_vals = set()
    if replace:
        ctx.check(not any(cnt.get(v, 0) for v in zero_vals), "tiled.zero_probability_option_drawn",
                  lambda: "options %s p %s out %s" % (vals, pw, flat))
        return
    # without replacement: q whole tiles plus `re` distinct positions of the option array
    if len(mult) == nopt:      # distinct options: the property as stated
        extra = [cnt.get(v, 0) - q for v in vals]
        ctx.check(all(x in (0, 1) for x in extra), "tiled.balance",
                  lambda: "options %s size %s: counts %s, every count must be %d or %d" % (vals, size, dict(cnt), q, q + 1))
        ctx.check(sum(extra) == re, "tiled.remainder_count",
                  lambda: "options %s size %s: %d options above %d, remainder %d" % (vals, size, sum(extra), q, re))
    else:                      # repeated option values (callers pass numpy.repeat(...)): per-value bounds
        for v, m in mult.items():
            c = cnt.get(v, 0)
            ctx.check(m * q <= c <= m * q + min(m, re), "tiled.balance_repeated_values",
                      lambda: "options %s size %s: value %s x%d drawn %d times, q=%d re=%d" % (vals, size, v, m, c, q, re))
    if p is not None:
        zpos = [i for i, x in enumerate(pw) if x == 0]
        if len(mult) == nopt:
            ctx.check(all(cnt.get(vals[i], 0) == q for i in zpos), "tiled.zero_probability_option_in_remainder",
                      lambda: "options %s p %s counts %s q %d" % (vals, pw, dict(cnt), q))


def tiled_docform_cases(tier):
    out = []
    for replace in (True, False):
        out.append({"form": "integral_a", "a": 5, "size": 3, "replace": replace, "seed": 1})
        out.append({"form": "integral_a", "a": 4, "size": [2, 5], "replace": replace, "seed": 2})
        out.append({"form": "size_none", "a": 5, "size": None, "replace": replace, "seed": 3})
    return out


def check_tiled_docforms(case, ctx):
    """Docstring: ``a : numpy.ndarray, Integral -- If an Integral, the random sample is generated as if it were
    np.arange(a)``; ``size ... Default is None, in which case a single value is returned``."""
    rng = RecRandomState(case["seed"])
    ctx.label("form=" + case["form"])
    ctx.nontrivial(True)
    known = ctx.known("F-C17-b", True)
    try:
        if case["form"] == "integral_a":
            size = _size_arg(case["size"])
            out = tiled_choice(case["a"], size, case["replace"], None, rng)
        else:
            out = tiled_choice(numpy.arange(case["a"]), None, case["replace"], None, rng)
    except (AttributeError, TypeError) as ex:
        if known:
            ctx.label("known_defect_manifested")
            return
        ctx.fail("tiled.documented_argument_form_rejected", "%s: %s: %s" % (case, type(ex).__name__, ex))
        return
    if case["form"] == "integral_a":
        shape = (size,) if isinstance(size, int) else tuple(size)
        flat = numpy.asarray(out).ravel().tolist()
        ctx.check(numpy.asarray(out).shape == shape and all(0 <= x < case["a"] for x in flat),
                  "tiled.integral_a_result", repr(out))
        if not case["replace"]:
            q, re = divmod(len(flat), case["a"])
            cnt = collections.Counter(flat)
            ctx.check(all(cnt.get(v, 0) in (q, q + 1) for v in range(case["a"])), "tiled.integral_a_balance", repr(out))
    else:
        ctx.check(numpy.ndim(out) == 0 and 0 <= int(out) < case["a"], "tiled.size_none_result", repr(out))


# ------------------------------------------------------------------------------------------------ axis_shuffle
@st.composite
def axis_case(draw):
    ndim = draw(st.sampled_from([1, 2, 2, 2, 3, 3, 4, 4]))
    shape = [draw(st.integers(1, 5 if ndim <= 2 else 4)) for _ in range(ndim)]
    if ndim == 1:
        shape = [draw(st.integers(1, 12))]
    nlist = min(ndim - 1, draw(st.sampled_from([0, 1, 1, 1, 2, 2, 3])))
    axes = draw(st.lists(st.integers(0, ndim - 1), min_size=nlist, max_size=nlist, unique=True))
    form = draw(st.sampled_from(["int", "int", "tuple"])) if len(axes) == 1 else "tuple"
    values = draw(st.sampled_from(["distinct", "distinct", "repeats"]))
    return {"shape": shape, "axes": axes, "form": form, "values": values, "rng": draw(real_rng)}


def check_axis_shuffle(case, ctx):
    shape = tuple(case["shape"])
    axes = [int(x) for x in case["axes"]]
    n = int(numpy.prod(shape))
    dt = case.get("dtype", "int64")       # sessions only: dtype (honoured when the values fit) and first value
    base = int(case.get("base", 0))
    if case["values"] == "distinct":
        arr = cast_fit([base + i for i in range(n)], dt, shape)
    else:
        arr = cast_fit([base + i * 7 % 3 for i in range(n)], dt, shape)
    ctx.label("array_dtype=" + str(arr.dtype), "dtype" in case)
    before = arr.copy()
    axis = axes[0] if case["form"] == "int" else tuple(axes)
    rng = make_rng(case["rng"])
    ctx.label("ndim=%d" % len(shape))
    ctx.label("axis_form=" + case["form"])
    ctx.label("naxes=%d" % len(axes))
    ctx.label("first_axis_listed", 0 in axes)
    ctx.label("first_axis_not_listed", 0 not in axes)
    ret = axis_shuffle(arr, axis, rng)
    ctx.check(ret is None, "axis_shuffle.returns_none")
    ctx.check(arr.shape == before.shape and arr.dtype == before.dtype, "axis_shuffle.shape_or_dtype_changed")
    changed = False
    log_p_identity = 0.0
    for idx in itertools.product(*[range(shape[ax]) for ax in sorted(axes)]):
        sl = [slice(None)] * len(shape)
        for ax, i in zip(sorted(axes), idx):
            sl[ax] = i
        b = before[tuple(sl)]
        c = arr[tuple(sl)]
        rows_b = sorted(numpy.asarray(x).tolist() if numpy.ndim(x) else [int(x)] for x in b)
        rows_c = sorted(numpy.asarray(x).tolist() if numpy.ndim(x) else [int(x)] for x in c)
        ctx.check(rows_b == rows_c, "axis_shuffle.slice_not_a_permutation_of_itself",
                  lambda: "shape %s axes %s: slice %s was %s, became %s" % (shape, axes, idx, b.tolist(), c.tolist()))
        if not numpy.array_equal(b, c):
            changed = True
        log_p_identity -= math.lgamma(b.shape[0] + 1)
    ctx.nontrivial(changed and len(axes) >= 1)
    ctx.label("array_changed", changed)
    if case["values"] == "distinct" and log_p_identity < math.log(1e-12):
        ctx.check(changed, "axis_shuffle.did_not_shuffle", "shape %s axes %s left unchanged" % (shape, axes))


def check_axis_rejects(case, ctx):
    ctx.nontrivial(True)
    rng = RecRandomState(1)
    for what, args in (("list_instead_of_ndarray", ([[1, 2], [3, 4]], 0, rng)),
                       ("axis_as_list", (numpy.arange(4).reshape(2, 2), [0], rng)),
                       ("rng_wrong_type", (numpy.arange(4).reshape(2, 2), 0, 12345))):
        try:
            axis_shuffle(*args)
        except TypeError:
            continue
        ctx.fail("axis_shuffle.invalid_argument_accepted", what)


# ------------------------------------------------------------------------------------------------ outcross_shuffle
def ndup(table):
    return sum(len(row) - len(set(row)) for row in table)


def outcross_clauses(table, rng_spec, ctx, tag, dtype="int64"):
    r, c = len(table), len(table[0])
    x = numpy.array(table, dtype=dtype).reshape(r, c)
    before = [list(map(int, row)) for row in x.tolist()]
    rng = make_rng(rng_spec)
    # a descent that only accepts strict improvements of a non-negative integer score needs at most d0+1 passes;
    # allow 20 shuffles per pass plus 100 before declaring the search non-terminating
    rng.shuffle_limit = 100 + 20 * ndup(before)
    try:
        ret = outcross_shuffle(x, rng)
    except ShuffleBudgetExceeded:
        ctx.fail(tag + "search_does_not_terminate", "more than %d shuffles on %s (%d repeats initially)"
                 % (rng.shuffle_limit, before, ndup(before)))
        return None
    after = [list(map(int, row)) for row in x.tolist()]
    d0, d1 = ndup(before), ndup(after)
    ctx.check(ret is None, tag + "returns_none")
    ctx.check(x.shape == (r, c), tag + "shape_changed")
    ctx.check(sorted(sum(before, [])) == sorted(sum(after, [])), tag + "multiset_of_entries_changed",
              lambda: "%s -> %s" % (before, after))
    ctx.check(d1 <= d0, tag + "duplicates_increased", lambda: "%s (%d) -> %s (%d)" % (before, d0, after, d1))
    flat = sum(after, [])
    better = None
    for i in range(len(flat)):
        for j in range(i + 1, len(flat)):
            if flat[i] == flat[j] or i // c == j // c:
                continue            # exchanging equal entries or entries of the same cross changes nothing
            f2 = list(flat)
            f2[i], f2[j] = f2[j], f2[i]
            t2 = [f2[k * c:(k + 1) * c] for k in range(r)]
            if ndup(t2) < d1:
                better = (i, j, t2)
                break
        if better:
            break
    ctx.check(better is None, tag + "stopped_although_an_exchange_reduces_duplicates",
              lambda: "%s -> %s (%d repeats); exchanging flat positions %d,%d gives %s (%d)"
              % (before, after, d1, better[0], better[1], better[2], ndup(better[2])))
    ctx.label("had_duplicates", d0 > 0)
    ctx.label("duplicates_removed", d1 < d0)
    ctx.label("irreducible_duplicates_remain", d1 > 0)
    ctx.label("already_optimal_with_duplicates", d0 > 0 and d1 == d0)
    ctx.nontrivial(d1 < d0)
    return rng.nshuffle      # number of passes over the exchange list (one shuffle() per pass)


def outcross_grid_cases(tier):
    out = []
    seeds = (0, 1, 2) if tier != "thorough" else tuple(range(8))
    for r in (1, 2, 3):
        for c in (1, 2):
            for cells in itertools.product(range(3), repeat=r * c):
                for s in seeds:
                    out.append({"r": r, "c": c, "cells": list(cells), "seed": s})
    return out


def check_outcross_grid(case, ctx):
    r, c = case["r"], case["c"]
    table = [case["cells"][i * c:(i + 1) * c] for i in range(r)]
    ctx.label("shape=%dx%d" % (r, c))
    spec = {"kind": "rs" if case["seed"] % 2 == 0 else "gen", "seed": case["seed"]}
    outcross_clauses(table, spec, ctx, "outcross_grid.")


@st.composite
def outcross_case(draw):
    r = draw(st.integers(1, 6))
    c = draw(st.integers(1, 4))
    nsym = draw(st.integers(1, 6))
    cells = [draw(st.integers(0, nsym - 1)) for _ in range(r * c)]
    relabel = draw(st.sampled_from(["identity", "spread"]))
    return {"r": r, "c": c, "cells": cells, "relabel": relabel, "rng": draw(real_rng)}


@st.composite
def outcross_dense_case(draw):
    """3-6 crosses of 3-4 parents filled from 2-4 individuals with very uneven shares: repeats are forced in several crosses at
    once, so the descent has to move an individual out of a cross and, later, back into it"""
    r = draw(st.integers(3, 6))
    c = draw(st.integers(3, 4))
    nsym = draw(st.integers(2, 4))
    pool = []
    for sym in range(nsym):
        pool += [sym] * draw(st.sampled_from([1, 1, 2, 3, 5, 8]))
    cells = [draw(st.sampled_from(pool)) for _ in range(r * c)]
    relabel = draw(st.sampled_from(["identity", "spread"]))
    return {"r": r, "c": c, "cells": cells, "relabel": relabel, "rng": draw(real_rng)}


def check_outcross(case, ctx):
    r, c = case["r"], case["c"]
    cells = [int(v) if case["relabel"] == "identity" else 1000 - 37 * int(v) for v in case["cells"]]
    table = [cells[i * c:(i + 1) * c] for i in range(r)]
    ctx.label("nparent=%d" % c)
    ctx.label("ncross=%d" % r)
    outcross_clauses(table, case["rng"], ctx, "outcross.")


# Wide tables (many parents per cross, e.g. polycross blocks) with heavy duplication: the descent needs many
# accepted exchanges -- more than any small multiple of the number of crosses -- before it reaches a local optimum.
WIDE_FAMILIES = ("blocks", "blocks", "sorted_draws", "sorted_draws", "crowded_row", "random_draws", "columns")


def wide_table(spec):
    """Build an r x c table (list of lists of python ints) deterministically from a JSON spec.

    blocks        the candidate list 0,1,2,... with `copies` consecutive copies of each, cut into crosses in order
                  (numpy.repeat(candidates, copies).reshape(r, c)): every cross starts as runs of identical entries
    sorted_draws  r*c draws from `nsym` candidates, sorted (uneven run lengths)
    crowded_row   one cross made of runs of `copies` identical entries, all other crosses made of distinct
                  individuals that occur nowhere else (every useful exchange removes exactly one repeat)
    random_draws  r*c draws from `nsym` candidates in random order
    columns       every cross is 0..c-1 (no repeats at all) -- interesting only after the transpositions below
    afterwards `nswap` random transpositions of flat positions are applied (0 = the pure family).
    """
    r, c = int(spec["r"]), int(spec["c"])
    n = r * c
    fam = spec["family"]
    g = numpy.random.default_rng(int(spec["tseed"]))
    m = max(1, int(spec["copies"]))
    nsym = max(1, int(spec["nsym"]))
    if fam == "blocks":
        cells = numpy.repeat(numpy.arange((n + m - 1) // m), m)[:n]
    elif fam == "sorted_draws":
        cells = numpy.sort(g.integers(0, nsym, n))
    elif fam == "crowded_row":
        cells = 10000 + numpy.arange(n)
        k = int(spec["row"]) % r
        cells[k * c:(k + 1) * c] = numpy.repeat(numpy.arange((c + m - 1) // m), m)[:c]
    elif fam == "random_draws":
        cells = g.integers(0, nsym, n)
    elif fam == "columns":
        cells = numpy.tile(numpy.arange(c), r)
    else:
        raise ValueError(fam)
    cells = [int(v) for v in cells]
    for _ in range(int(spec["nswap"])):
        i, j = int(g.integers(0, n)), int(g.integers(0, n))
        cells[i], cells[j] = cells[j], cells[i]
    if spec.get("relabel") == "spread":
        cells = [100000 - 37 * v for v in cells]
    return [cells[i * c:(i + 1) * c] for i in range(r)]


@st.composite
def outcross_wide_case(draw):
    # sizes are bounded by cost: one sweep evaluates (r*c)^2/2 exchanges with r numpy.unique calls each
    r = draw(st.sampled_from([2, 2, 2, 3, 3, 4]))
    cmax = {2: 60, 3: 36, 4: 28}[r]
    c = draw(st.one_of(st.integers(12, cmax), st.integers((3 * cmax) // 4, cmax), st.integers((3 * cmax) // 4, cmax)))
    fam = draw(st.sampled_from(WIDE_FAMILIES))
    copies = draw(st.sampled_from([2, 3, 4, 6, r, r, r, r]))
    nsym = draw(st.one_of(st.integers(c, 2 * c), st.integers(c, 2 * c), st.integers(max(2, c // 2), 3 * c)))
    nswap = draw(st.sampled_from([0, 0, 0, 1, 2, 5, c, r * c]))
    return {"r": r, "c": c, "family": fam, "copies": copies, "nsym": nsym, "row": draw(st.integers(0, 3)),
            "tseed": draw(_seed), "nswap": nswap, "relabel": draw(st.sampled_from(["identity", "spread"])),
            "rng": draw(real_rng)}


def check_outcross_wide(case, ctx):
    table = wide_table(case)
    r, c = len(table), len(table[0])
    ctx.label("family=" + case["family"])
    ctx.label("ncross=%d" % r)
    ctx.label("nparent>=24", c >= 24)
    ctx.label("nparent>=40", c >= 40)
    ctx.label("perturbed", case["nswap"] > 0)
    rounds = outcross_clauses(table, case["rng"], ctx, "outcross_wide.")
    if rounds is not None:
        # measured on the generator: how long was the climb (each shuffle() call is one pass over the exchanges)
        ctx.label("climb_longer_than_5_passes_per_cross", rounds > 5 * r)
        ctx.label("climb_longer_than_10_passes_per_cross", rounds > 10 * r + 1)
        ctx.label("climb_longer_than_20_passes_per_cross", rounds > 20 * r + 1)
        ctx.label("climb_longer_than_50_passes", rounds > 50)
        ctx.note("passes", rounds)


def outcross_wide_fixed_cases(tier):
    """A few fixed wide tables whose climbs are long by construction (blocks: about (r-1)*c/2.. (r-1)*c accepted
    exchanges; crowded_row: exactly c/copies*(copies-1)... accepted exchanges).  The expensive ones (tens of seconds
    per call on the unchanged code) run in the thorough tier only."""
    out = []

    def add(fam, r, c, copies, seeds, nswap=0):
        for s in seeds:
            out.append({"r": r, "c": c, "family": fam, "copies": copies, "nsym": c, "row": s, "tseed": s,
                        "nswap": nswap, "relabel": "identity", "rng": {"kind": "rs" if s % 2 == 0 else "gen", "seed": s}})

    add("blocks", 2, 48, 2, (0, 1))
    add("blocks", 3, 30, 3, (0, 1))
    add("blocks", 3, 32, 2, (0, 1))
    add("crowded_row", 2, 48, 2, (0, 1))
    add("crowded_row", 3, 48, 3, (0, 1))
    add("blocks", 4, 24, 4, (0, 1))
    add("blocks", 2, 60, 2, (0, 1), nswap=10)
    if tier == "thorough":
        add("blocks", 6, 40, 6, (0, 1))
        add("blocks", 4, 48, 4, (0, 1))
        add("blocks", 5, 40, 3, (0, 1), nswap=40)
        add("sorted_draws", 4, 40, 1, (0, 1, 2, 3))
        add("crowded_row", 4, 60, 4, (0, 1))
        add("blocks", 2, 100, 2, (0, 1))
        add("blocks", 8, 24, 8, (0, 1))
    return out


# ------------------------------------------------------------------------------------------------ sessions
# The property is quantified over all inputs of a call; it does not say "of the first call in a process".  A session
# is a list of calls of ONE utility executed one after the other in the same process; every call is judged by the
# per-call oracle (the functions above), nothing is asserted about the relation between calls.
#
# Isolation: a session runs in a forked child of the worker.  The worker itself never calls the utility in these
# sub-checks, so every session starts from the same process state and its outcome is a function of the case alone
# (Hypothesis can shrink it; a replay in a fresh process sees what the search saw).  Whatever the calls of a session
# leave behind in the process dies with the child.
def _exception_clause(e):
    """same bucket naming as the runner: exception:<Type>@<innermost pybrops frame>"""
    pyb, last = None, None
    for fs in traceback.extract_tb(e.__traceback__):
        last = fs
        if "/pybrops/" in fs.filename.replace("\\", "/"):
            pyb = fs
    fs = pyb or last
    where = "%s:%s" % (os.path.basename(fs.filename), fs.name) if fs is not None else "?"
    return "exception:%s@%s" % (type(e).__name__, where)


def run_isolated(fn, case, ctx):
    """fn(case, ctx) in a forked child; labels/notes/exclusions and the outcome are carried back into ``ctx``."""
    rfd, wfd = os.pipe()
    pid = os.fork()
    if pid == 0:                                        # ---- child
        status = 1
        try:
            os.close(rfd)
            if hasattr(signal, "setitimer"):
                signal.setitimer(signal.ITIMER_REAL, 0)
            outcome = None
            try:
                fn(case, ctx)
            except Violation as v:
                outcome = ("violation", v.clause, v.msg)
            except Reject:
                outcome = ("reject",)
            except Exception as e:      # escaped from the code under test: same treatment as in the runner
                outcome = ("exception", _exception_clause(e),
                           "".join(traceback.format_exception(type(e), e, e.__traceback__)[-6:])[-1500:])
            payload = pickle.dumps({"labels": list(ctx.labels), "nontrivial": bool(ctx.is_nontrivial),
                                    "excluded": dict(ctx.excluded), "suppressed_hits": dict(ctx.suppressed_hits),
                                    "notes": dict(ctx.notes), "outcome": outcome})
            with os.fdopen(wfd, "wb") as fh:
                fh.write(payload)
            status = 0
        finally:
            os._exit(status)
    os.close(wfd)                                       # ---- parent
    reaped = False
    try:
        with os.fdopen(rfd, "rb") as fh:
            data = fh.read()
        _, st_ = os.waitpid(pid, 0)
        reaped = True
    finally:
        if not reaped:                                  # watchdog alarm or interrupt while waiting
            try:
                os.kill(pid, signal.SIGKILL)
                os.waitpid(pid, 0)
            except OSError:
                pass
    if not data:
        raise RuntimeError("the process executing the session died (wait status %r)" % (st_,))
    res = pickle.loads(data)
    ctx.labels.extend(res["labels"])
    ctx.is_nontrivial = ctx.is_nontrivial or res["nontrivial"]
    ctx.excluded.update(res["excluded"])
    ctx.suppressed_hits.update(res["suppressed_hits"])
    ctx.notes.update(res["notes"])
    out = res["outcome"]
    if out is None:
        return
    if out[0] == "reject":
        raise Reject()
    ctx.fail(out[1], out[2])


INT_DTYPES = ("int8", "uint8", "int16", "uint16", "int32", "uint32", "int64")
_dtype = st.sampled_from(INT_DTYPES + ("int64", "int64"))
MODULI = (2 ** 8, 2 ** 16, 2 ** 32)
BASES = (0, 0, 0, 1, 100, 120, 127, 128, 200, 250, 255, 256, 1000, 32760, 32767, 32768, 40000, 65530, 65536, 10 ** 6,
         2 ** 31 - 4, 2 ** 31, 2 ** 32 - 3, 2 ** 32, 2 ** 40, 2 ** 53, 2 ** 62)


def session_ids(call):
    """Ids of one cross table of a session (python ints), built so that they fit the dtype of the call.

    cell = base + symbol + modulus*k with a small alphabet of symbols (repeats are frequent), k in 0..3 and modulus
    2^8 / 2^16 / 2^32: cells with equal symbol and different k are DIFFERENT individuals whose ids are congruent
    modulo 2^8 (2^16, 2^32).  A cell that does not fit the dtype drops the modulus term, then the base."""
    info = numpy.iinfo(call["dtype"])
    base, mod = int(call["base"]), int(call["modulus"])
    out = []
    for sym, k in zip(call["cells"], call["ks"]):
        for v in (base + sym + mod * k, base + sym, sym + mod * k, sym):
            if v <= info.max:
                out.append(int(v))
                break
    return out


@st.composite
def session_outcross_case(draw):
    nshape = draw(st.sampled_from([1, 1, 2]))
    shapes = [[draw(st.integers(1, 4)), draw(st.sampled_from([1, 2, 2, 2, 3, 3, 4]))] for _ in range(nshape)]
    calls = []
    for _ in range(draw(st.integers(2, 6))):
        sh = draw(st.sampled_from([0, 0, 0, 1])) % nshape
        n = shapes[sh][0] * shapes[sh][1]
        nsym = draw(st.integers(1, 5))
        kmax = draw(st.sampled_from([0, 1, 1, 2, 3]))
        calls.append({"shape": sh, "dtype": draw(_dtype), "base": draw(st.sampled_from(BASES)),
                      "modulus": draw(st.sampled_from(MODULI)),
                      "cells": [draw(st.integers(0, nsym - 1)) for _ in range(n)],
                      "ks": [draw(st.integers(0, kmax)) for _ in range(n)],
                      "rng": draw(real_rng)})
    return {"shapes": shapes, "calls": calls}


def _session_outcross(case, ctx):
    seen = {}            # shape -> dtypes of the earlier calls of the session with that shape
    for pos, call in enumerate(case["calls"]):
        r, c = case["shapes"][call["shape"]]
        ids = session_ids(call)
        table = [ids[i * c:(i + 1) * c] for i in range(r)]
        dt = numpy.dtype(call["dtype"])
        earlier = seen.setdefault((r, c), [])
        narrower = [d for d in earlier if d.itemsize < dt.itemsize]
        top = max(ids)
        congruent = any(a != b and (a - b) % 256 == 0 for row in table for a in row for b in row)
        ctx.label("call_dtype=" + call["dtype"])
        ctx.label("later_call", pos > 0)
        ctx.label("same_shape_as_an_earlier_call", bool(earlier))
        ctx.label("same_shape_narrower_dtype_earlier", bool(narrower))
        ctx.label("different_shape_from_every_earlier_call", pos > 0 and not earlier)
        ctx.label("ids_beyond_127", top > 127)
        ctx.label("ids_beyond_32767", top > 32767)
        ctx.label("ids_beyond_2^32", top >= 2 ** 32)
        ctx.label("distinct_ids_congruent_mod_256_in_one_cross", congruent)
        ctx.label("congruent_ids_after_narrower_dtype_same_shape",
                  bool(narrower) and any(a != b and (a - b) % (2 ** (8 * min(d.itemsize for d in narrower))) == 0
                                         for row in table for a in row for b in row))
        ctx.note("call_%d" % pos, {"dtype": call["dtype"], "table": table})
        outcross_clauses(table, call["rng"], ctx, "outcross_session.", dtype=call["dtype"])
        earlier.append(dt)


def check_session_outcross(case, ctx):
    run_isolated(_session_outcross, case, ctx)


# sessions of the three other utilities: the per-call cases of the sub-checks above, widened by an integer dtype
# and large / congruent labels, several of them in one process
@st.composite
def session_list_case(draw, kind):
    calls = []
    for _ in range(draw(st.integers(2, 5))):
        if kind == "sus":
            c = draw(sus_case(False))
            c["adtype"] = draw(_dtype)
            c["labels"] = draw(st.sampled_from(["arange", "offset", "big", "big"]))
        elif kind == "tiled":
            c = draw(tiled_case())
            c["dtype"] = draw(_dtype)
            if c["okind"] == "labels" and draw(st.booleans()):
                c["okind"] = "big"
        else:
            c = draw(axis_case())
            c["dtype"] = draw(_dtype)
            c["base"] = draw(st.sampled_from(BASES[:-1]))
        calls.append(c)
    return {"calls": calls}


def _session_of(check_one):
    def inner(case, ctx):
        for pos, call in enumerate(case["calls"]):
            ctx.label("later_call", pos > 0)
            check_one(call, ctx)

    def outer(case, ctx):
        run_isolated(inner, case, ctx)
    return outer


check_session_sus = _session_of(check_sus)
check_session_tiled = _session_of(check_tiled)
check_session_axis = _session_of(check_axis_shuffle)


SUBCHECKS = [
    SubCheck("sus", check_sus, sus_case(False), quick=2500, thorough=8000, shards_quick=4,
             rule="generated (weights n<=10: integer/equal/decimal-grid/1e-12/1e12/power-of-two/mixed-magnitude/float, "
                  "forced ties and zeros; size int/1-D/2-D, k<=40; RandomState/Generator/scripted offset in "
                  "[2^-36,1-2^-36] of the spacing); non-trivial = >=2 distinct positive weights and k>=2",
             required_labels=("rng=rs", "rng=gen", "rng=scripted", "has_zero_weight", "has_tied_weights",
                              "some_exact_integer_expectation", "weights_span_1e12", "size_form=2d",
                              "exact_integer_clause_asserted")),
    SubCheck("sus_boundary", check_sus_boundary, sus_case(True), quick=1000, thorough=5000, shards_quick=2,
             rule="same weights/sizes with the scripted offset within 2^-40 of an end of [0, ptr_dist) (0, a few ulp, "
                  "2^-e); non-trivial as for sus",
             required_labels=("place=ulps_high", "place=ulps_low", "place=pow2_high", "place=pow2_low")),
    SubCheck("sus_total", check_sus_total, sus_total_case(), quick=80, thorough=400, shards_quick=6, shrink_s=25.0,
             rule="generated weight vectors whose total is T*(1+-dev): T = 1 (a third of the cases) or 1/2, 2, 10, 100, "
                  "1000, 1/10, 1/1000, 10^6, k, 1/k; dev 1e-16..2e-2 from decimals (3-8 places) whose units add up to "
                  "10^D+-j, normalised vectors scaled by 1+-d / with one entry moved by d / rounded to float32; number of "
                  "draws 10..2.5e6 (int, 1-D, 2-D, 3-D shapes) tied to the deviation so that k*dev is 1/2..200; "
                  "non-trivial = >=2 distinct positive weights and k*dev >= 1 (the deviation of the total is worth at "
                  "least one whole draw)",
             required_labels=("k*dev>=1", "k*dev>=4", "k*dev>=2_and_dev<=1e-5", "k*dev>=2_and_dev<=1e-3",
                              "total_near=1", "total_near_a_round_value_other_than_1", "mode=decimal", "mode=float32",
                              "k>=1e6", "total_above_round_value", "total_below_round_value", "size_form=2d")),
    SubCheck("tiled", check_tiled, tiled_case(), quick=1500, thorough=6000, shards_quick=2,
             rule="generated option sets 1-8 (arange/labels/repeated values/floats), size int/1-D/2-D <= 40, "
                  "replace, optional p with zeros; non-trivial = without replacement with >=1 whole tile and a remainder",
             required_labels=("no_replace", "replace", "with_p", "p_has_zero", "tiles_and_remainder",
                              "whole_tiles_only", "fewer_samples_than_options")),
    SubCheck("tiled_docforms", check_tiled_docforms, cases=tiled_docform_cases, shards_quick=1, shards_thorough=1,
             rule="finite: the two documented argument forms (Integral a; size=None) x replace"),
    SubCheck("axis_shuffle", check_axis_shuffle, axis_case(), quick=1500, thorough=6000, shards_quick=2,
             rule="generated arrays 1-4-D, listed axes a proper subset (possibly empty) as int or tuple; "
                  "non-trivial = some slice actually changed",
             required_labels=("ndim=4", "axis_form=int", "first_axis_listed", "first_axis_not_listed", "array_changed")),
    SubCheck("axis_rejects", check_axis_rejects, cases=lambda tier: [{}], shards_quick=1, shards_thorough=1,
             rule="finite: the three documented TypeError paths"),
    SubCheck("outcross_grid", check_outcross_grid, cases=outcross_grid_cases, shards_quick=2, shards_thorough=8,
             rule="exhaustive: all tables over {0,1,2} with 1-3 crosses x 1-2 parents, 3 generator seeds each "
                  "(thorough: 8); non-trivial = at least one duplicate removed",
             required_labels=("duplicates_removed", "irreducible_duplicates_remain")),
    SubCheck("outcross", check_outcross, outcross_case(), quick=1200, thorough=5000, shards_quick=2,
             rule="generated tables 1-6 x 1-4 over 1-6 symbols; non-trivial = at least one duplicate removed",
             required_labels=("duplicates_removed", "irreducible_duplicates_remain", "already_optimal_with_duplicates")),
    SubCheck("outcross_dense", check_outcross, outcross_dense_case(), quick=1500, thorough=8000, shards_quick=4,
             rule="generated tables 3-6 x 3-4 over 2-4 individuals with very uneven shares (repeats forced in several crosses at "
                  "once); non-trivial = at least one duplicate removed",
             required_labels=("duplicates_removed", "irreducible_duplicates_remain")),
    SubCheck("outcross_wide", check_outcross_wide, outcross_wide_case(), quick=16, thorough=400, shards_quick=6,
             shrink_s=20.0,
             rule="generated wide tables (2 x 12-60, 3 x 12-36, 4 x 12-28) with heavy repetition: candidate list with "
                  "2-6 consecutive copies cut into crosses in order, sorted draws, one crowded cross among distinct "
                  "ones, random draws, repeat-free columns; 0 to r*c random transpositions on top; non-trivial = at "
                  "least one duplicate removed",
             required_labels=("duplicates_removed", "irreducible_duplicates_remain",
                              "climb_longer_than_10_passes_per_cross", "nparent>=40", "perturbed")),
    SubCheck("outcross_wide_fixed", check_outcross_wide, cases=outcross_wide_fixed_cases, shards_quick=4,
             shards_thorough=16,
             rule="finite: 14 wide tables with long climbs by construction (2x48, 2x60, 3x30, 3x32, 3x48, 4x24; "
                  "25-50 accepted exchanges); thorough adds 16 larger ones (6x40, 4x48, 5x40, 4x40, 4x60, 2x100, 8x24; "
                  "40-150 accepted exchanges, seconds to tens of seconds per call)",
             required_labels=("climb_longer_than_10_passes_per_cross",)),
    SubCheck("session_outcross", check_session_outcross, session_outcross_case(), quick=400, thorough=2000,
             shards_quick=2,
             rule="generated sessions of 2-6 outcross_shuffle calls in one forked process: 1-2 table shapes (1-4 x 1-4) "
                  "shared by the calls, dtype int8/uint8/int16/uint16/int32/uint32/int64 per call, ids = base (0 .. 2^62) "
                  "+ symbol (1-5 symbols) + modulus (2^8/2^16/2^32) * k so that distinct ids congruent modulo the width of "
                  "a narrower dtype meet in one cross; every call judged by the per-call oracle; non-trivial = at least "
                  "one duplicate removed in some call",
             required_labels=("same_shape_narrower_dtype_earlier", "different_shape_from_every_earlier_call",
                              "ids_beyond_32767", "ids_beyond_2^32", "distinct_ids_congruent_mod_256_in_one_cross",
                              "congruent_ids_after_narrower_dtype_same_shape", "call_dtype=int8", "call_dtype=uint16",
                              "duplicates_removed", "irreducible_duplicates_remain")),
    SubCheck("session_sus", check_session_sus, session_list_case("sus"), quick=250, thorough=1500, shards_quick=1,
             rule="generated sessions of 2-5 SUS calls (cases of `sus`) in one forked process; element labels int8..int64, "
                  "0..n-1 / 100+7i / top-256i (top = min(2^40, dtype max)); non-trivial as for sus",
             required_labels=("later_call", "labels_dtype=int8", "labels_dtype=int64")),
    SubCheck("session_tiled", check_session_tiled, session_list_case("tiled"), quick=250, thorough=1500, shards_quick=1,
             rule="generated sessions of 2-5 tiled_choice calls (cases of `tiled`) in one forked process; option arrays "
                  "int8..int64 incl. ids top-256i; non-trivial as for tiled",
             required_labels=("later_call", "options_dtype=int8", "options_dtype=int64", "options=big")),
    SubCheck("session_axis", check_session_axis, session_list_case("axis"), quick=250, thorough=1500, shards_quick=1,
             rule="generated sessions of 2-5 axis_shuffle calls (cases of `axis_shuffle`) in one forked process; arrays "
                  "int8..int64 with first value 0 .. 2^53; non-trivial as for axis_shuffle",
             required_labels=("later_call", "array_dtype=int8", "array_dtype=int64", "array_changed")),
]
