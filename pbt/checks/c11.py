"""C11 -- genetic maps and map functions obey their defining laws.

Sub-checks
    mapfn    Haldane / Kosambi: range, fixed points 0 -> 0 and inf -> 1/2, monotone, closed forms through a different
             code path (math.expm1 / math.log1p / math.tanh / math.atanh), both round trips with conditioning-aware bounds
    gdist    gdist2g symmetric / zero diagonal / inf across chromosomes / additive for ordered triples; gdist1g = first
             differences inside chromosome runs and inf at run starts; agreement of the two; slice arguments
    interp   StandardGeneticMap / ExtendedGeneticMap built from shuffled rows: constructor sorts and groups, units,
             interp_genpos at own markers / between flanking markers (exact rational reference) / beyond the ends /
             absent chromosomes, order preservation for congruent maps, invariance to the row order, interp_gmap,
             gdist1p / gdist2p = g-forms of the interpolated positions
    xoprob   genotype matrices: interp_genpos / interp_xoprob = map function of consecutive interpolated distances with
             1/2 at chromosome starts; ungrouped matrices are refused
    history  operation histories on map objects: whole chromosomes / single markers removed (remove, select), genetic
             positions reassigned through the setter, build_spline() called again, maps derived with interp_gmap / copy /
             deepcopy / the constructor (handed a copy of another map's spline dictionary) and then edited and rebuilt
             themselves; after every step every map whose interpolant has been (re)built since its last edit -- the one
             operated on AND all the others -- is compared with the reference interpolant of its current rows, at the
             positions of the original map (so a chromosome that has left a map is queried there) and at its own markers
    requery  ONE map object asked several times with marker arrays the caller keeps and edits IN PLACE between the calls
             (two array pairs; a genotype matrix's vrnt_chrgrp / vrnt_phypos reached through its getters): interp_genpos,
             gdist1p, gdist2p, rprob1p, rprob2p, interp_gmap, matrix.interp_genpos / interp_xoprob -- every answer is the
             reference answer for the contents the arrays hold at the time of that call
Chromosome labels, in every sub-check but mapfn: arbitrary integers of any integer dtype (label_world) -- negative, 0, -1, the
dtype's min / max, values around the 8/16/32/53/63/64-bit borders, narrow and unsigned dtypes, a query / genotype-matrix dtype
other than the map's; the oracle keys chromosomes by equality of Python ints.
"""
import math
from fractions import Fraction

import numpy
from hypothesis import strategies as st

from pbt import compat  # noqa: F401
from pbt.core import SubCheck

from pybrops.popgen.gmap.StandardGeneticMap import StandardGeneticMap
from pybrops.popgen.gmap.ExtendedGeneticMap import ExtendedGeneticMap
from pybrops.popgen.gmap.HaldaneMapFunction import HaldaneMapFunction
from pybrops.popgen.gmap.KosambiMapFunction import KosambiMapFunction
from pybrops.popgen.gmat.DensePhasedGenotypeMatrix import DensePhasedGenotypeMatrix
from pybrops.popgen.gmat.DenseGenotypeMatrix import DenseGenotypeMatrix

ASSUMPTIONS = [
    "maps have >= 2 markers per chromosome and unique physical positions within a chromosome (the property's quantifier); "
    "genetic positions are finite",
    "gdist*g queries are sorted jointly by (chromosome, genetic position) as their docstrings require; for the p-forms "
    "the query is sorted by (chromosome, physical position)",
    "map function values are compared with closed forms evaluated by libm (math.*) with an absolute tolerance of 4 eps "
    "(the implementation's 1-exp(-2d) cancels for small d; relative accuracy there is not part of the property)",
    "monotonicity allows 2 eps of slack between neighbouring values (numpy's vectorised exp/tanh are not guaranteed "
    "monotone to the last bit)",
    "F-C11-a signature (input side): interp_gmap is called with a query whose chromosome run structure (names, counts, "
    "sortedness) differs from the source map's",
    "history: after rows were removed / selected / genetic positions reassigned, and for a map fresh from interp_gmap (which "
    "carries a copy of its source's interpolant by design), interpolation is examined only once build_spline() has been called "
    "on that object again -- the library does not rebuild on edits and the property does not say what a stale interpolant "
    "describes; stored rows are examined always; every edit leaves >= 2 markers on each remaining chromosome and >= 1 chromosome",
    "requery: 'all query marker sets' is read per call -- the marker set of a call is what the arrays hold when the call is made, "
    "whichever array objects carry it; marker sets handed to gdist*p / rprob*p / a genotype matrix stay sorted by (chromosome, "
    "position) after every in-place edit; a matrix whose chromosome run lengths changed is grouped again before it is interpolated "
    "(a run that is only relabelled, keeping the array sorted, may or may not be); what the matrix holds is read back through its "
    "getters before the call, so the clause does not depend on the getters handing out the stored arrays",
    "chromosome labels are arbitrary integers in any numpy integer dtype (every vrnt_chrgrp argument / setter of the two map classes "
    "and of the genotype matrices checks 'integer dtype' and nothing more); two markers are on the same chromosome iff their labels "
    "are equal as integers, whatever the dtypes of the arrays that carry them; maps and grouped matrices order chromosomes numerically",
]

EPS = 2.0 ** -52
INF = float("inf")


# ----------------------------------------------------------------------------------------------------------------------
# closed forms (libm code path)
# ----------------------------------------------------------------------------------------------------------------------
def ref_mapfn(kind, d):
    if math.isnan(d):
        return d
    if kind == "haldane":
        return -0.5 * math.expm1(-2.0 * d)
    return 0.5 * math.tanh(2.0 * d)


def ref_invmapfn(kind, r):
    if r == 0.5:
        return INF
    if kind == "haldane":
        return -0.5 * math.log1p(-2.0 * r)
    return 0.5 * math.atanh(2.0 * r)


# hand-computed anchors: r(0)=0, r(inf)=1/2, Haldane r(ln2/2)=1/4, Kosambi r(atanh(1/2)/2)=1/4
assert ref_mapfn("haldane", 0.0) == 0.0 and ref_mapfn("kosambi", 0.0) == 0.0
assert ref_mapfn("haldane", INF) == 0.5 and ref_mapfn("kosambi", INF) == 0.5
assert abs(ref_mapfn("haldane", math.log(2.0) / 2.0) - 0.25) < 1e-16
assert abs(ref_mapfn("kosambi", 0.5 * math.atanh(0.5)) - 0.25) < 1e-16
assert abs(ref_invmapfn("haldane", 0.25) - math.log(2.0) / 2.0) < 1e-16
assert abs(ref_invmapfn("kosambi", 0.25) - 0.5 * math.atanh(0.5)) < 1e-16


def make_mapfn(kind):
    return HaldaneMapFunction() if kind == "haldane" else KosambiMapFunction()


# ----------------------------------------------------------------------------------------------------------------------
# sub-check: mapfn
# ----------------------------------------------------------------------------------------------------------------------
D_POOL = [0.0, 5e-324, 1e-300, 1e-17, 1e-8, 1e-3, 0.01, 0.1, 0.25, 0.5, 1.0, 5.0, 9.0, 18.0, 19.0, 20.0, 1e3, 1e300, INF, INF, INF]
R_POOL = [0.0, 5e-324, 1e-17, 1e-8, 0.01, 0.1, 0.25, 0.3, 0.4, 0.45, 0.49, 0.4999, 0.49999999, 0.5 - 2.0 ** -53, 0.5]


@st.composite
def mapfn_case(draw):
    ds = draw(st.lists(st.one_of(st.sampled_from(D_POOL), st.floats(0.0, 30.0, allow_nan=False),
                                 st.floats(0.0, 1e-3, allow_nan=False)), min_size=1, max_size=12))
    rs = draw(st.lists(st.one_of(st.sampled_from(R_POOL), st.floats(0.0, 0.5, allow_nan=False)), min_size=1, max_size=12))
    return {"fn": draw(st.sampled_from(["haldane", "kosambi"])), "d": ds, "r": rs,
            "shape": draw(st.sampled_from(["1d", "1d", "2d", "scalar"]))}


def _shape(vals, how):
    a = numpy.array(vals, dtype="float64")
    if how == "2d" and a.size % 2 == 0 and a.size > 0:
        return a.reshape(2, -1)
    return a


def check_mapfn(case, ctx):
    kind = case["fn"]
    f = make_mapfn(kind)
    ds = [float(x) for x in case["d"]]
    rs = [float(x) for x in case["r"]]
    ctx.label(kind)
    ctx.label("d_has_0", 0.0 in ds)
    ctx.label("d_has_inf", INF in ds)
    ctx.label("d_has_subnormal", any(0.0 < x < 2.3e-308 for x in ds))
    ctx.label("d_large(>=19)", any(19.0 <= x < INF for x in ds))
    ctx.label("r_has_0.5", 0.5 in rs)
    ctx.label("r_near_0.5", any(0.49 < x < 0.5 for x in rs))
    ctx.nontrivial(len(set(ds)) >= 3 and len(set(rs)) >= 3)

    if case["shape"] == "scalar":
        out = f.mapfn(ds[0])
        ctx.check(numpy.ndim(out) == 0, "mapfn.scalar_in_scalar_out")
        ctx.check(abs(float(out) - ref_mapfn(kind, ds[0])) <= 4 * EPS, "mapfn.closed_form",
                  lambda: "d=%r: %r expected %r" % (ds[0], float(out), ref_mapfn(kind, ds[0])))
        return

    darr = _shape(ds, case["shape"])
    dsnap = darr.copy()
    r = f.mapfn(darr)
    ctx.check(isinstance(r, numpy.ndarray) and r.shape == darr.shape, "mapfn.shape", lambda: "%s" % (getattr(r, "shape", None),))
    ctx.check(numpy.array_equal(darr, dsnap), "mapfn.input_mutated")
    rf = [float(x) for x in r.ravel()]
    for d, x in zip(ds, rf):
        ctx.check(0.0 <= x <= 0.5, "mapfn.range", lambda: "d=%r -> %r" % (d, x))
        if d == 0.0:
            ctx.check(x == 0.0, "mapfn.zero_to_zero", lambda: "r(0)=%r" % x)
        if d == INF:
            ctx.check(x == 0.5, "mapfn.inf_to_half", lambda: "r(inf)=%r" % x)
        ctx.check(abs(x - ref_mapfn(kind, d)) <= 4 * EPS, "mapfn.closed_form",
                  lambda: "d=%r: %r expected %r" % (d, x, ref_mapfn(kind, d)))
    order = sorted(range(len(ds)), key=lambda i: ds[i])
    for a, b in zip(order[:-1], order[1:]):
        ctx.check(rf[b] >= rf[a] - 2 * EPS, "mapfn.monotone", lambda: "d %r<=%r but r %r>%r" % (ds[a], ds[b], rf[a], rf[b]))
        if ds[a] == ds[b]:
            ctx.check(rf[a] == rf[b], "mapfn.deterministic")

    # inverse
    rarr = _shape(rs, case["shape"])
    dinv = f.invmapfn(rarr)
    ctx.check(isinstance(dinv, numpy.ndarray) and dinv.shape == rarr.shape, "invmapfn.shape")
    df = [float(x) for x in dinv.ravel()]
    for rr, x in zip(rs, df):
        ref = ref_invmapfn(kind, rr)
        ctx.check(x >= 0.0 or x == 0.0, "invmapfn.non_negative", lambda: "r=%r -> %r" % (rr, x))
        if rr == 0.0:
            ctx.check(x == 0.0, "invmapfn.zero_to_zero", lambda: "d(0)=%r" % x)
        if rr == 0.5:
            ctx.check(x == INF, "invmapfn.half_to_inf", lambda: "d(0.5)=%r" % x)
        else:
            ctx.check(abs(x - ref) <= 4 * EPS * (1.0 + abs(ref)), "invmapfn.closed_form", lambda: "r=%r: %r expected %r" % (rr, x, ref))
    order = sorted(range(len(rs)), key=lambda i: rs[i])
    for a, b in zip(order[:-1], order[1:]):
        ctx.check(df[b] >= df[a] - 4 * EPS * (1.0 + abs(df[a])) or df[b] == INF, "invmapfn.monotone",
                  lambda: "r %r<=%r but d %r>%r" % (rs[a], rs[b], df[a], df[b]))

    # round trips
    back = [float(x) for x in f.mapfn(dinv).ravel()]
    for rr, x in zip(rs, back):
        ctx.check(abs(x - rr) <= 8 * EPS, "roundtrip.mapfn_of_invmapfn", lambda: "r=%r -> d -> %r" % (rr, x))
    back = [float(x) for x in f.invmapfn(r).ravel()]
    for d, rr, x in zip(ds, rf, back):
        gap = 1.0 - 2.0 * rr
        if gap <= 0.0:
            ctx.check(x == INF, "roundtrip.invmapfn_of_half_is_inf", lambda: "d=%r r=%r -> %r" % (d, rr, x))
            continue
        ctx.check(abs(x - d) <= 8 * EPS * (1.0 + d) / gap, "roundtrip.invmapfn_of_mapfn",
                  lambda: "d=%r -> r=%r -> %r (bound %r)" % (d, rr, x, 8 * EPS * (1.0 + d) / gap))


# ----------------------------------------------------------------------------------------------------------------------
# map strategy and builders
# ----------------------------------------------------------------------------------------------------------------------
G_INC = [0.0, 0.0, 0.001, 0.01, 0.1, 0.1, 0.5, 1.0]

# Chromosome labels are arbitrary integers: the library accepts any integer dtype for vrnt_chrgrp (maps, queries, genotype
# matrices) and nothing in the property singles out a value.  Two styles: "plain" (small positive ids, int64) and "wide" (a drawn
# integer dtype; labels from the values an implementation is tempted to reserve -- -1, 0, the dtype's min / max and their
# neighbours, powers of two around the 8/16/32/53/63/64-bit borders -- plus uniform draws over the whole dtype range).
# The oracle keys chromosomes by EQUALITY of Python ints (dict lookup) and orders them numerically; nothing else.
INT_DTYPES = ["int8", "int16", "int32", "int64", "uint8", "uint16", "uint32", "uint64"]
LAB_DTYPES = ["int64", "int64", "int64", "int32", "int16", "int8", "uint8", "uint16", "uint32", "uint64"]
LAB_POOL = [-1, 0, 1, 2, -2, -3, 127, 128, -128, -129, 255, 256, 32767, 32768, -32768, -32769, 65535, 65536,
            2 ** 31 - 1, 2 ** 31, -2 ** 31, -2 ** 31 - 1, 2 ** 32 - 1, 2 ** 32, 2 ** 32 + 1, 2 ** 53, 2 ** 53 + 1, -2 ** 53 - 1,
            2 ** 63 - 1, 2 ** 63 - 2, -2 ** 63, -2 ** 63 + 1, 2 ** 63, 2 ** 63 + 1, 2 ** 64 - 1, 2 ** 64 - 2, 10 ** 9, 10 ** 12, 10 ** 18]
N_ABSENT = 5


def dt_range(dt):
    ii = numpy.iinfo(dt)
    return int(ii.min), int(ii.max)


def chr_array(vals, dt="int64"):
    return numpy.array([int(v) for v in vals], dtype=dt)


@st.composite
def label_world(draw, n, plain=(1, 12)):
    """n distinct chromosome labels + N_ABSENT distinct labels the map does not have + dtypes for the map and for queries"""
    if draw(st.sampled_from(["plain", "plain", "wide", "wide", "wide"])) == "plain":
        labels = draw(st.lists(st.integers(plain[0], plain[1]), min_size=n, max_size=n, unique=True))
        return {"labels": labels, "absent": [max(labels) + 1 + d for d in range(N_ABSENT)], "lab_dtype": "int64", "qdtype": "int64"}
    dt = draw(st.sampled_from(LAB_DTYPES))
    lo, hi = dt_range(dt)
    elem = st.one_of(st.sampled_from([v for v in (-1, -1, 0, lo, hi, lo + 1, hi - 1) if lo <= v <= hi]),
                     st.sampled_from([v for v in LAB_POOL if lo <= v <= hi]),
                     st.integers(max(lo, -3), min(hi, 12)), st.integers(lo, hi))
    vals = draw(st.lists(elem, min_size=n + N_ABSENT, max_size=n + N_ABSENT, unique=True))
    fits = [d for d in INT_DTYPES if all(dt_range(d)[0] <= v <= dt_range(d)[1] for v in vals)]
    return {"labels": vals[:n], "absent": vals[n:], "lab_dtype": dt, "qdtype": draw(st.sampled_from([dt, dt, dt] + fits))}


def label_labels(ctx, labels, dt, queried=None, qdt=None):
    """histogram of the label situations a case contains (labels = the map's, in dtype dt; queried = labels asked about, in qdt)"""
    if queried is not None and len(queried):
        lo, hi = dt_range(qdt or dt)
        queried = [int(c) for c in queried]
        ctx.label("first_queried_label_is_-1", min(queried) == -1)
        ctx.label("first_queried_label_is_0", min(queried) == 0)
        ctx.label("first_queried_label_is_dtype_min_or_max", min(queried) in (lo, hi))
        ctx.label("last_queried_label_is_-1_0_or_dtype_max", max(queried) in (-1, 0, hi))
    if labels is None:
        return
    lo, hi = dt_range(dt)
    labels = [int(c) for c in labels]
    ctx.label("chr_label_negative", any(c < 0 for c in labels))
    ctx.label("chr_label_beyond_32_bits", any(not -2 ** 31 <= c < 2 ** 31 for c in labels))
    ctx.label("chr_dtype_narrow_or_unsigned", dt != "int64")
    ctx.label("chr_smallest_label_is_-1", min(labels) == -1)
    ctx.label("chr_smallest_label_is_0", min(labels) == 0)
    ctx.label("chr_label_is_dtype_min", min(labels) == lo)
    ctx.label("chr_label_is_dtype_max", max(labels) == hi)


@st.composite
def map_strategy(draw):
    nchr = draw(st.integers(1, 5))
    world = draw(label_world(nchr))
    labels = world["labels"]
    chroms = []
    for lab in labels:
        n = draw(st.integers(2, 8))
        gaps = [draw(st.sampled_from([1, 2, 3, 7, 10, 10, 100, 1000, 12345, 10 ** 6])) for _ in range(n - 1)]
        p0 = draw(st.sampled_from([1, 0, 5, 1000, 10 ** 6, -50]))
        kind = draw(st.sampled_from(["congruent", "congruent", "congruent", "flat", "noncongruent"]))
        g0 = draw(st.sampled_from([0.0, 0.0, 0.1, 2.5]))
        if kind == "flat":
            incs = [0.0] * (n - 1)
        else:
            incs = [draw(st.one_of(st.sampled_from(G_INC), st.floats(0.0, 1.0, allow_nan=False, allow_subnormal=False)))
                    for _ in range(n - 1)]
            if kind == "noncongruent":
                k = draw(st.integers(0, n - 2))
                incs[k] = -draw(st.sampled_from([0.01, 0.1, 0.5]))
        chroms.append({"label": lab, "p0": p0, "gaps": gaps, "g0": g0, "incs": incs})
    total = sum(len(c["gaps"]) + 1 for c in chroms)
    return {"chroms": chroms,
            "perm": draw(st.one_of(st.just(list(range(total))), st.permutations(list(range(total))),
                                   st.permutations(list(range(total))), st.just(list(range(total))[::-1]))),
            "cls": draw(st.sampled_from(["standard", "extended"])),
            "units": draw(st.sampled_from(["M", "M", "cM", "Morgans", "centiMorgans"])),
            "names": draw(st.booleans()),
            "auto_group": draw(st.sampled_from([True, True, True, False])),
            "lab_dtype": world["lab_dtype"], "qdtype": world["qdtype"], "absent": world["absent"]}


QUERY = st.fixed_dictionaries({"kind": st.sampled_from(["own", "own", "mid", "mid", "mid", "left", "right", "absent"]),
                               "c": st.integers(0, 10 ** 6), "k": st.integers(0, 10 ** 6), "off": st.integers(0, 10 ** 6)})


def map_rows(mc):
    """rows (chr, phypos, value-in-given-units) in canonical (sorted) order"""
    rows = []
    for c in sorted(mc["chroms"], key=lambda c: c["label"]):
        x, g = int(c["p0"]), float(c["g0"])
        rows.append((int(c["label"]), x, g))
        for gap, inc in zip(c["gaps"], c["incs"]):
            x += int(gap)
            g = g + float(inc)
            rows.append((int(c["label"]), x, g))
    return rows


def unit_factor(units):
    return 0.01 if units in ("cM", "centiMorgans") else None


def build_map(mc, order):
    rows = map_rows(mc)
    rows = [rows[i] for i in order]
    chrgrp = chr_array([r[0] for r in rows], mc.get("lab_dtype", "int64"))
    phypos = numpy.array([r[1] for r in rows], dtype="int64")
    genpos = numpy.array([r[2] for r in rows], dtype="float64")
    ag = bool(mc.get("auto_group", True))
    if mc["cls"] == "standard":
        return StandardGeneticMap(chrgrp, phypos, genpos, vrnt_genpos_units=mc["units"], auto_group=ag)
    names = numpy.array(["m%d_%d" % (r[0], r[1]) for r in rows], dtype=object) if mc["names"] else None
    return ExtendedGeneticMap(chrgrp, phypos, phypos + 1, genpos, vrnt_name=names, vrnt_genpos_units=mc["units"], auto_group=ag)


def ref_model(mc):
    """dict label -> (xs, ys) sorted by physical position, ys in Morgans as stored (same single multiplication)"""
    fac = unit_factor(mc["units"])
    model = {}
    for (c, x, g) in map_rows(mc):
        y = g if fac is None else fac * g
        model.setdefault(c, ([], []))
        model[c][0].append(x)
        model[c][1].append(y)
    for c in model:
        xs, ys = model[c]
        order = sorted(range(len(xs)), key=lambda i: xs[i])
        model[c] = ([xs[i] for i in order], [ys[i] for i in order])
    return model


def ref_interp(model, c, x):
    """(value, tolerance, strictly_between) of the piecewise linear interpolant (linear continuation beyond the ends)"""
    if c not in model:
        return float("nan"), 0.0, False
    xs, ys = model[c]
    n = len(xs)
    if x <= xs[0]:
        k = 0
    elif x >= xs[n - 1]:
        k = n - 2
    else:
        k = max(i for i in range(n - 1) if xs[i] <= x)
    x0, x1, y0, y1 = xs[k], xs[k + 1], Fraction(ys[k]), Fraction(ys[k + 1])
    t = Fraction(x - x0, x1 - x0)
    val = y0 + (y1 - y0) * t
    # covers both y0 + slope*(x-x0) and the convex form t*y1 + (1-t)*y0 (scipy >= 1.1x); beyond the ends |t| > 1 amplifies rounding
    tol = 8 * EPS * (abs(ys[k]) + (abs(ys[k]) + abs(ys[k + 1])) * float(max(abs(t), abs(1 - t)))) + 1e-300
    # at a node the neighbouring segment may be used instead: same value, its own rounding
    if x in xs:
        i = xs.index(x)
        lo, hi = max(i - 1, 0), min(i + 1, n - 1)
        tol = 8 * EPS * (abs(ys[lo]) + abs(ys[i]) + abs(ys[hi])) + 1e-300
    return float(val), tol, (xs[0] < x < xs[n - 1] and x not in xs)


# interpolation reference: hand-computed
_m = {1: ([0, 10, 30], [0.0, 1.0, 2.0])}
assert ref_interp(_m, 1, 5)[0] == 0.5 and ref_interp(_m, 1, 20)[0] == 1.5 and ref_interp(_m, 1, 10)[0] == 1.0
assert ref_interp(_m, 1, -10)[0] == -1.0 and ref_interp(_m, 1, 50)[0] == 3.0 and math.isnan(ref_interp(_m, 2, 5)[0])


def build_queries(mc, qs):
    model_x = {}
    for (c, x, g) in map_rows(mc):
        model_x.setdefault(c, []).append(x)
    return build_queries_x(model_x, qs, mc.get("absent"))


def absent_labels(model_x, absent=None):
    """labels the map does not have (drawn with the map; cases recorded before labels were widened: the next larger integers)"""
    if absent is None:
        return [max(model_x) + 1 + d for d in range(N_ABSENT)]
    return [int(c) for c in absent if int(c) not in model_x]


def build_queries_x(model_x, qs, absent=None):
    """queries (chromosome, position, kind) relative to a map given as dict label -> physical positions"""
    labels = sorted(model_x)
    absent = absent_labels(model_x, absent)
    out = []
    for q in qs:
        lab = labels[int(q["c"]) % len(labels)]
        xs = sorted(model_x[lab])
        kind = q["kind"]
        if kind == "absent":
            out.append((absent[int(q["c"]) % 3], int(q["off"]) % 5000, "absent"))
            continue
        if kind == "mid":
            k = int(q["k"]) % (len(xs) - 1)
            gap = xs[k + 1] - xs[k]
            if gap >= 2:
                out.append((lab, xs[k] + 1 + int(q["off"]) % (gap - 1), "mid"))
                continue
            kind = "own"
        if kind == "own":
            out.append((lab, xs[int(q["k"]) % len(xs)], "own"))
        elif kind == "left":
            out.append((lab, xs[0] - 1 - int(q["off"]) % 1000, "left"))
        else:
            out.append((lab, xs[-1] + 1 + int(q["off"]) % 1000, "right"))
    return out


def nan_equal(a, b):
    return numpy.array_equal(numpy.asarray(a, dtype="float64"), numpy.asarray(b, dtype="float64"), equal_nan=True)


def run_structure(chr_list):
    """None when not sorted, else (names, counts)"""
    if any(chr_list[i] > chr_list[i + 1] for i in range(len(chr_list) - 1)):
        return None
    names = sorted(set(chr_list))
    return names, [chr_list.count(c) for c in names]


# ----------------------------------------------------------------------------------------------------------------------
# sub-check: interp
# ----------------------------------------------------------------------------------------------------------------------
@st.composite
def interp_case(draw):
    return {"map": draw(map_strategy()), "queries": draw(st.lists(QUERY, min_size=1, max_size=12)),
            "sort_query": draw(st.booleans()), "qmode": draw(st.sampled_from(["free", "free", "free", "free", "all_own_markers"]))}


def check_interp(case, ctx):
    mc = case["map"]
    rows = map_rows(mc)
    total = len(rows)
    perm = [int(i) for i in mc["perm"]]
    permuted = perm != list(range(total))
    model = ref_model(mc)
    nchr = len(model)
    congruent = all(all(ys[i] <= ys[i + 1] for i in range(len(ys) - 1)) for xs, ys in model.values())
    ctx.label(mc["cls"])
    ctx.label("units=" + ("cM" if unit_factor(mc["units"]) else "M"))
    ctx.label("rows_permuted", permuted)
    ctx.label("congruent" if congruent else "non_congruent")
    ctx.label("nchr>=2", nchr >= 2)

    m = build_map(mc, perm)
    qdt = mc.get("qdtype", "int64")
    ctx.label("auto_group=False", not mc.get("auto_group", True))
    if not mc.get("auto_group", True):
        # rows are kept as given (the interpolant is still built from them); group() is what a caller does next
        ctx.check(not m.is_grouped() and m.vrnt_chrgrp.tolist() == [rows[i][0] for i in perm]
                  and m.vrnt_phypos.tolist() == [rows[i][1] for i in perm], "construct.ungrouped_rows_kept_as_given")
        early = build_queries(mc, case["queries"])
        e_got = m.__class__.interp_genpos(m, chr_array([q[0] for q in early], qdt), numpy.array([q[1] for q in early], dtype="int64"))
        for q, g_ in zip(early, e_got.tolist()):
            val, tol, _ = ref_interp(model, q[0], q[1])
            ctx.check((math.isnan(val) and math.isnan(g_)) or abs(g_ - val) <= tol, "interp.map_built_from_unsorted_rows",
                      lambda: "query %s: %r expected %r" % (q, g_, val))
        m.group()

    # ---- constructor: sorted by (chromosome, physical position), grouped, units converted
    exp_chr = [c for c in sorted(model) for _ in model[c][0]]
    exp_phy = [x for c in sorted(model) for x in model[c][0]]
    exp_gen = [y for c in sorted(model) for y in model[c][1]]
    ctx.check(len(m) == total and m.nvrnt == total, "construct.length")
    ctx.check(m.vrnt_chrgrp.tolist() == exp_chr and m.vrnt_phypos.tolist() == exp_phy, "construct.sorted_by_chromosome_and_position",
              lambda: "chr %s pos %s" % (m.vrnt_chrgrp.tolist(), m.vrnt_phypos.tolist()))
    ctx.check(m.vrnt_genpos.tolist() == exp_gen, "construct.genetic_positions_follow_their_rows_in_morgans",
              lambda: "units %s: stored %s expected %s" % (mc["units"], m.vrnt_genpos.tolist(), exp_gen))
    names = sorted(model)
    counts = [len(model[c][0]) for c in names]
    stix = [sum(counts[:i]) for i in range(len(counts))]
    ctx.check(m.is_grouped() and m.vrnt_chrgrp_name.tolist() == names and m.vrnt_chrgrp_stix.tolist() == stix
              and m.vrnt_chrgrp_len.tolist() == counts and m.vrnt_chrgrp_spix.tolist() == [a + b for a, b in zip(stix, counts)],
              "construct.group_metadata")
    if mc["cls"] == "extended":
        ctx.check(m.vrnt_stop.tolist() == [x + 1 for x in exp_phy], "construct.extended_columns_follow_their_rows")
        if mc["names"]:
            ctx.check(m.vrnt_name.tolist() == ["m%d_%d" % (c, x) for c, x in zip(exp_chr, exp_phy)],
                      "construct.extended_columns_follow_their_rows")
    ctx.check(bool(m.is_congruent()) == congruent, "construct.is_congruent", lambda: "is_congruent=%r expected %r" % (m.is_congruent(), congruent))

    # ---- interpolation
    qs = build_queries(mc, case["queries"])
    if case.get("qmode") == "all_own_markers":      # the query has the source map's own layout
        qs = [(c, x, "own") for c, x in zip(exp_chr, exp_phy)]
    if case["sort_query"]:
        qs = sorted(qs, key=lambda q: (q[0], q[1]))
    qc = chr_array([q[0] for q in qs], qdt)
    qx = numpy.array([q[1] for q in qs], dtype="int64")
    kinds = [q[2] for q in qs]
    for k in ("own", "mid", "left", "right", "absent"):
        ctx.label("query_" + k, k in kinds)
    label_labels(ctx, sorted(model), mc.get("lab_dtype", "int64"), [q[0] for q in qs], qdt)
    ctx.label("query_dtype_differs_from_map_dtype", qdt != mc.get("lab_dtype", "int64"))
    ctx.nontrivial(nchr >= 2 and "mid" in kinds and permuted)
    qc_snap, qx_snap = qc.copy(), qx.copy()
    got = m.interp_genpos(qc, qx)
    ctx.check(isinstance(got, numpy.ndarray) and got.shape == qx.shape and got.dtype == numpy.dtype("float64"), "interp.shape_dtype")
    ctx.check(numpy.array_equal(qc, qc_snap) and numpy.array_equal(qx, qx_snap), "interp.input_mutated")
    refs = [ref_interp(model, q[0], q[1]) for q in qs]
    for q, (val, tol, between), g in zip(qs, refs, got.tolist()):
        if q[2] == "absent":
            ctx.check(math.isnan(g), "interp.absent_chromosome_is_missing", lambda: "chromosome %d not in map -> %r" % (q[0], g))
            continue
        ctx.check(not math.isnan(g), "interp.present_chromosome_is_not_missing", lambda: "%s -> nan" % (q,))
        clause = {"own": "interp.own_marker_returns_stored_position", "mid": "interp.linear_between_flanking_markers"}.get(
            q[2], "interp.linear_continuation_beyond_ends")
        ctx.check(abs(g - val) <= tol, clause, lambda: "query %s: %r expected %r (tol %r); map %s" % (q, g, val, tol, model.get(q[0])))
    if congruent:
        byc = {}
        for q, g in zip(qs, got.tolist()):
            if q[2] != "absent":
                byc.setdefault(q[0], []).append((q[1], g))
        for c, lst in byc.items():
            lst.sort()
            xs_c = model[c][0]
            lst = [(x, g) for x, g in lst if xs_c[0] <= x <= xs_c[-1]]      # between flanking markers (the property's scope);
            if not lst:                                                    # beyond the ends rounding grows with the distance
                continue
            scale = max(abs(y) for y in model[c][1]) + max(abs(g) for _, g in lst)
            for (x0, g0), (x1, g1) in zip(lst[:-1], lst[1:]):
                ctx.check(g1 >= g0 - 16 * EPS * scale, "interp.order_preserving_for_congruent_map",
                          lambda: "chromosome %d: pos %d -> %r but pos %d -> %r" % (c, x0, g0, x1, g1))

    # ---- nothing depends on the order of the constructor's rows
    m2 = build_map(mc, list(range(total)))
    ctx.check(m2.vrnt_chrgrp.tolist() == m.vrnt_chrgrp.tolist() and m2.vrnt_phypos.tolist() == m.vrnt_phypos.tolist()
              and m2.vrnt_genpos.tolist() == m.vrnt_genpos.tolist(), "roworder.stored_map")
    got2 = m2.interp_genpos(qc, qx)
    ctx.check(nan_equal(got, got2), "roworder.interp_genpos", lambda: "%s vs %s" % (got.tolist(), got2.tolist()))

    # ---- interp_gmap
    if mc["cls"] == "standard":
        im = m.interp_gmap(qc, qx)
    else:
        im = m.interp_gmap(qc, qx, qx + 1)
    ctx.check(type(im) is type(m), "interp_gmap.class")
    trip = sorted(zip(im.vrnt_chrgrp.tolist(), im.vrnt_phypos.tolist(), [repr(x) for x in im.vrnt_genpos.tolist()]))
    exp = sorted(zip(qc.tolist(), qx.tolist(), [repr(x) for x in got.tolist()]))
    ctx.check(trip == exp, "interp_gmap.rows_are_the_interpolated_query", lambda: "%s expected %s" % (trip, exp))
    differs = run_structure(qc.tolist()) != (names, counts)
    ctx.label("interp_gmap_layout_differs_from_source", differs)
    ctx.label("interp_gmap_layout_same_as_source", not differs)
    if not ctx.known("F-C11-a", differs):
        if im.is_grouped():
            own = run_structure(im.vrnt_chrgrp.tolist())
            okmeta = own is not None and im.vrnt_chrgrp_name.tolist() == own[0] and im.vrnt_chrgrp_len.tolist() == own[1] \
                and im.vrnt_chrgrp_stix.tolist() == [sum(own[1][:i]) for i in range(len(own[1]))] \
                and im.vrnt_chrgrp_spix.tolist() == [sum(own[1][:i + 1]) for i in range(len(own[1]))]
            ctx.check(okmeta, "interp_gmap.group_metadata_describes_the_new_map",
                      lambda: "new map chromosomes %s but is_grouped() with names %s start %s stop %s (the source map's)" % (
                          im.vrnt_chrgrp.tolist(), im.vrnt_chrgrp_name.tolist(), im.vrnt_chrgrp_stix.tolist(), im.vrnt_chrgrp_spix.tolist()))

    # ---- p-forms of the distances = g-forms of the interpolated positions (sorted query)
    sq = sorted(qs, key=lambda q: (q[0], q[1]))
    sc = chr_array([q[0] for q in sq], qdt)
    sx = numpy.array([q[1] for q in sq], dtype="int64")
    sg = m.interp_genpos(sc, sx)
    d1 = m.gdist1p(sc, sx)
    d2 = m.gdist2p(sc, sx)
    ctx.check(nan_equal(d1, m.gdist1g(sc, sg)), "gdist1p.equals_g_form_of_interpolated_positions")
    ctx.check(nan_equal(d2, m.gdist2g(sc, sg)), "gdist2p.equals_g_form_of_interpolated_positions")
    ctx.check(nan_equal(d1, m2.gdist1p(sc, sx)) and nan_equal(d2, m2.gdist2p(sc, sx)), "roworder.gdist_p_forms")
    sref = [ref_interp(model, q[0], q[1]) for q in sq]
    n = len(sq)
    ctx.check(d1.shape == (n,) and d2.shape == (n, n), "gdistp.shape")
    for i in range(n):
        start = i == 0 or sq[i][0] != sq[i - 1][0]
        if start:
            ctx.check(d1[i] == INF, "gdist1p.inf_at_chromosome_start", lambda: "index %d: %r" % (i, float(d1[i])))
        elif sq[i][2] != "absent":
            exp_d = sref[i][0] - sref[i - 1][0]
            ctx.check(abs(float(d1[i]) - exp_d) <= sref[i][1] + sref[i - 1][1] + 4 * EPS * abs(exp_d), "gdist1p.value",
                      lambda: "index %d: %r expected %r" % (i, float(d1[i]), exp_d))
        for j in range(n):
            if sq[i][0] != sq[j][0]:
                ctx.check(d2[i, j] == INF, "gdist2p.inf_between_chromosomes")
            elif sq[i][2] != "absent":
                exp_d = abs(sref[i][0] - sref[j][0])
                ctx.check(abs(float(d2[i, j]) - exp_d) <= sref[i][1] + sref[j][1] + 4 * EPS * exp_d, "gdist2p.value",
                          lambda: "[%d,%d]: %r expected %r" % (i, j, float(d2[i, j]), exp_d))


# ----------------------------------------------------------------------------------------------------------------------
# sub-check: gdist (g-forms)
# ----------------------------------------------------------------------------------------------------------------------
@st.composite
def gdist_case(draw):
    nchr = draw(st.integers(1, 4))
    world = draw(label_world(nchr, plain=(0, 20)))
    labels = sorted(world["labels"])
    chroms = []
    for lab in labels:
        n = draw(st.integers(1, 6))
        g0 = draw(st.sampled_from([0.0, 0.0, 0.3, 1.5, -0.5]))
        incs = [draw(st.one_of(st.sampled_from(G_INC), st.floats(0.0, 2.0, allow_nan=False, allow_subnormal=False)))
                for _ in range(n - 1)]
        chroms.append({"label": lab, "g0": g0, "incs": incs})
    return {"chroms": chroms, "cls": draw(st.sampled_from(["standard", "extended"])),
            "sl": [draw(st.integers(0, 10 ** 6)) for _ in range(6)], "use_slices": draw(st.booleans()), "lab_dtype": world["lab_dtype"]}


_TINY = {"chroms": [{"label": 1, "p0": 1, "gaps": [10], "g0": 0.0, "incs": [0.1]}], "perm": [0, 1], "units": "M", "names": False}


def check_gdist(case, ctx):
    chr_l, gen_l = [], []
    for c in case["chroms"]:
        g = float(c["g0"])
        chr_l.append(int(c["label"]))
        gen_l.append(g)
        for inc in c["incs"]:
            g = g + float(inc)
            chr_l.append(int(c["label"]))
            gen_l.append(g)
    n = len(chr_l)
    m = build_map(dict(_TINY, cls=case["cls"]), [0, 1])
    vc = chr_array(chr_l, case.get("lab_dtype", "int64"))
    vg = numpy.array(gen_l, dtype="float64")
    ctx.label(case["cls"])
    label_labels(ctx, chr_l, case.get("lab_dtype", "int64"), chr_l)
    ctx.label("nchr>=2", len(case["chroms"]) >= 2)
    ctx.label("single_marker_chromosome", any(len(c["incs"]) == 0 for c in case["chroms"]))
    ctx.label("tied_positions", any(0.0 in [float(x) for x in c["incs"]] for c in case["chroms"]))
    ctx.nontrivial(len(case["chroms"]) >= 2 and any(len(c["incs"]) >= 2 for c in case["chroms"]))
    snap_c, snap_g = vc.copy(), vg.copy()

    d2 = m.gdist2g(vc, vg)
    d1 = m.gdist1g(vc, vg)
    ctx.check(d2.shape == (n, n) and d1.shape == (n,), "gdist.shape")
    ctx.check(numpy.array_equal(vc, snap_c) and numpy.array_equal(vg, snap_g), "gdist.input_mutated")
    for i in range(n):
        ctx.check(d2[i, i] == 0.0, "gdist2g.zero_diagonal", lambda: "[%d,%d]=%r" % (i, i, float(d2[i, i])))
        for j in range(n):
            a, b = float(d2[i, j]), float(d2[j, i])
            ctx.check(a == b, "gdist2g.symmetric", lambda: "[%d,%d]=%r [%d,%d]=%r" % (i, j, a, j, i, b))
            if chr_l[i] != chr_l[j]:
                ctx.check(a == INF, "gdist2g.inf_between_chromosomes", lambda: "[%d,%d]=%r" % (i, j, a))
            else:
                ctx.check(a == abs(gen_l[i] - gen_l[j]) and a >= 0.0 and a < INF, "gdist2g.value",
                          lambda: "[%d,%d]=%r expected %r" % (i, j, a, abs(gen_l[i] - gen_l[j])))
    # additivity along a chromosome for ordered markers
    for i in range(n):
        for j in range(i + 1, n):
            for k in range(j + 1, n):
                if chr_l[i] == chr_l[j] == chr_l[k]:
                    s = abs(gen_l[i]) + abs(gen_l[j]) + abs(gen_l[k])
                    ctx.check(abs(float(d2[i, k]) - (float(d2[i, j]) + float(d2[j, k]))) <= 4 * EPS * s, "gdist2g.additive_for_ordered_markers",
                              lambda: "d[%d,%d]=%r != d[%d,%d]+d[%d,%d]=%r" % (i, k, float(d2[i, k]), i, j, j, k, float(d2[i, j]) + float(d2[j, k])))
    # sequential
    for i in range(n):
        if i == 0 or chr_l[i] != chr_l[i - 1]:
            ctx.check(d1[i] == INF, "gdist1g.inf_at_chromosome_start", lambda: "index %d: %r" % (i, float(d1[i])))
        else:
            ctx.check(float(d1[i]) == gen_l[i] - gen_l[i - 1], "gdist1g.first_difference",
                      lambda: "index %d: %r expected %r" % (i, float(d1[i]), gen_l[i] - gen_l[i - 1]))
            ctx.check(float(d1[i]) == float(d2[i - 1, i]), "gdist1g.agrees_with_pairwise",
                      lambda: "index %d: sequential %r pairwise %r" % (i, float(d1[i]), float(d2[i - 1, i])))
    # slices
    if case["use_slices"]:
        r = sorted(int(x) % (n + 1) for x in case["sl"][0:2])
        c = sorted(int(x) % (n + 1) for x in case["sl"][2:4])
        a = sorted(int(x) % (n + 1) for x in case["sl"][4:6])
        sub = m.gdist2g(vc, vg, r[0], r[1], c[0], c[1])
        ctx.check(sub.shape == (r[1] - r[0], c[1] - c[0]) and nan_equal(sub, d2[r[0]:r[1], c[0]:c[1]]), "gdist2g.slice_is_submatrix",
                  lambda: "rows %s cols %s" % (r, c))
        if a[1] > a[0]:
            s1 = m.gdist1g(vc, vg, a[0], a[1])
            exp = [INF if (i == a[0] or chr_l[i] != chr_l[i - 1]) else gen_l[i] - gen_l[i - 1] for i in range(a[0], a[1])]
            ctx.check(s1.tolist() == exp, "gdist1g.slice", lambda: "slice %s: %s expected %s" % (a, s1.tolist(), exp))


# ----------------------------------------------------------------------------------------------------------------------
# sub-check: xoprob on genotype matrices
# ----------------------------------------------------------------------------------------------------------------------
@st.composite
def xoprob_case(draw):
    return {"map": draw(map_strategy()), "queries": draw(st.lists(QUERY, min_size=1, max_size=12)),
            "fn": draw(st.sampled_from(["haldane", "kosambi"])), "phased": draw(st.booleans()),
            "ntaxa": draw(st.integers(1, 3)), "gseed": draw(st.integers(0, 2 ** 32 - 1)),
            # the matrix may already carry genetic positions / crossover probabilities (from its constructor, a file, or an
            # earlier interpolation with another map): the call must assign the ones of the map it is given
            "prior": draw(st.sampled_from(["none", "none", "constructor", "earlier_map"]))}


def check_xoprob(case, ctx):
    mc = case["map"]
    model = ref_model(mc)
    kind = case["fn"]
    f = make_mapfn(kind)
    total = len(map_rows(mc))
    m = build_map(mc, [int(i) for i in mc["perm"]])
    qs = build_queries(mc, case["queries"])
    qdt = mc.get("qdtype", "int64")
    p = len(qs)
    n = int(case["ntaxa"])
    rng = numpy.random.default_rng(case["gseed"])
    tag = numpy.arange(p, dtype="int8") % 2        # column tag: follows its variant through the sort
    prior = case.get("prior", "none")
    ctx.label("prior_positions:" + prior)
    extra = {}
    if prior == "constructor":
        extra = {"vrnt_genpos": 5.0 + 0.37 * numpy.arange(p, dtype="float64"), "vrnt_xoprob": numpy.full(p, 0.125)}
    if case["phased"]:
        mat = numpy.broadcast_to(tag, (2, n, p)).astype("int8") + 0 * rng.integers(0, 2, size=(2, n, p)).astype("int8")
        g = DensePhasedGenotypeMatrix(mat.copy(), vrnt_chrgrp=chr_array([q[0] for q in qs], qdt),
                                      vrnt_phypos=numpy.array([q[1] for q in qs], dtype="int64"),
                                      vrnt_name=numpy.array(["v%d" % i for i in range(p)], dtype=object), **extra)
    else:
        mat = numpy.broadcast_to(tag, (n, p)).astype("int8")
        g = DenseGenotypeMatrix(mat.copy(), vrnt_chrgrp=chr_array([q[0] for q in qs], qdt),
                                vrnt_phypos=numpy.array([q[1] for q in qs], dtype="int64"),
                                vrnt_name=numpy.array(["v%d" % i for i in range(p)], dtype=object), **extra)
    congruent = all(all(ys[i] <= ys[i + 1] for i in range(len(ys) - 1)) for xs, ys in model.values())
    kinds = [q[2] for q in qs]
    ctx.label(kind)
    ctx.label("phased" if case["phased"] else "unphased")
    ctx.label(mc["cls"])
    ctx.label("has_absent_chromosome", "absent" in kinds)
    ctx.label("congruent" if congruent else "non_congruent")
    nq_chr = len(set(q[0] for q in qs))
    ctx.label("variants_on>=2_chromosomes", nq_chr >= 2)
    label_labels(ctx, sorted(model), mc.get("lab_dtype", "int64"), [q[0] for q in qs], qdt)
    ctx.label("matrix_dtype_differs_from_map_dtype", qdt != mc.get("lab_dtype", "int64"))
    ctx.nontrivial(nq_chr >= 2 and "mid" in kinds)

    # ungrouped matrices are refused (documented ValueError)
    try:
        g.interp_xoprob(m, f)
        ctx.fail("xoprob.ungrouped_matrix_accepted")
    except ValueError:
        pass

    g.group_vrnt()
    order = sorted(range(p), key=lambda i: (qs[i][0], qs[i][1]))      # stable, like numpy.lexsort
    sq = [qs[i] for i in order]
    ctx.check(g.vrnt_chrgrp.tolist() == [q[0] for q in sq] and g.vrnt_phypos.tolist() == [q[1] for q in sq], "xoprob.grouping_sorts_variants")

    if prior == "earlier_map":
        # an earlier interpolation with a different map (all genetic positions stretched and shifted)
        from pybrops.popgen.gmap.StandardGeneticMap import StandardGeneticMap as _SGM
        other = _SGM(vrnt_chrgrp=numpy.array(m.vrnt_chrgrp), vrnt_phypos=numpy.array(m.vrnt_phypos),
                     vrnt_genpos=3.0 * numpy.array(m.vrnt_genpos, dtype="float64") + 1.0)
        g.interp_xoprob(other, f)
    g.interp_xoprob(m, f)
    gp, xo = g.vrnt_genpos, g.vrnt_xoprob
    ctx.check(isinstance(gp, numpy.ndarray) and gp.shape == (p,) and isinstance(xo, numpy.ndarray) and xo.shape == (p,), "xoprob.shape")
    ctx.check(g.vrnt_chrgrp.tolist() == [q[0] for q in sq] and g.vrnt_phypos.tolist() == [q[1] for q in sq]
              and g.vrnt_name.tolist() == ["v%d" % i for i in order], "xoprob.variant_labels_changed")
    exp_mat = mat[..., order]
    ctx.check(numpy.array_equal(g.mat, exp_mat), "xoprob.genotypes_changed")
    refs = [ref_interp(model, q[0], q[1]) for q in sq]
    gpl, xol = gp.tolist(), xo.tolist()
    for i in range(p):
        val, tol, _ = refs[i]
        if sq[i][2] == "absent":
            ctx.check(math.isnan(gpl[i]), "xoprob.genpos_missing_on_absent_chromosome", lambda: "%s -> %r" % (sq[i], gpl[i]))
        else:
            ctx.check(abs(gpl[i] - val) <= tol, "xoprob.genpos_is_interpolated", lambda: "%s -> %r expected %r" % (sq[i], gpl[i], val))
        start = i == 0 or sq[i][0] != sq[i - 1][0]
        if start:
            ctx.check(xol[i] == 0.5, "xoprob.half_at_chromosome_start", lambda: "variant %d (%s): %r" % (i, sq[i], xol[i]))
        elif sq[i][2] == "absent":
            ctx.check(math.isnan(xol[i]), "xoprob.missing_inside_absent_chromosome", lambda: "%r" % xol[i])
        else:
            d_impl = gpl[i] - gpl[i - 1]
            d_ref = val - refs[i - 1][0]
            if sq[i - 1][2] == "absent" or d_impl < 0.0 or d_ref < 0.0:
                # a non-congruent map gives a negative "distance": outside the domain of the map functions
                ctx.label("negative_distance_skipped")
                continue
            ctx.check(abs(xol[i] - ref_mapfn(kind, d_impl)) <= 4 * EPS, "xoprob.is_mapfn_of_consecutive_distance",
                      lambda: "variant %d: xoprob %r, distance %r, %s(d)=%r" % (i, xol[i], d_impl, kind, ref_mapfn(kind, d_impl)))
            ctx.check(abs(xol[i] - ref_mapfn(kind, d_ref)) <= 4 * EPS + tol + refs[i - 1][1], "xoprob.value_from_reference_map",
                      lambda: "variant %d: xoprob %r expected %r" % (i, xol[i], ref_mapfn(kind, d_ref)))
            if congruent:
                ctx.check(-4 * EPS <= xol[i] <= 0.5, "xoprob.range_for_congruent_map", lambda: "%r" % xol[i])

    # interp_genpos alone gives the same positions
    if case["phased"]:
        g2 = DensePhasedGenotypeMatrix(exp_mat.copy(), vrnt_chrgrp=g.vrnt_chrgrp.copy(), vrnt_phypos=g.vrnt_phypos.copy())
    else:
        g2 = DenseGenotypeMatrix(exp_mat.copy(), vrnt_chrgrp=g.vrnt_chrgrp.copy(), vrnt_phypos=g.vrnt_phypos.copy())
    g2.interp_genpos(m)
    ctx.check(nan_equal(g2.vrnt_genpos, gp), "xoprob.interp_genpos_agrees")


# ----------------------------------------------------------------------------------------------------------------------
# sub-check: history (the same laws on map objects that have a past, and on the maps they were derived from)
# ----------------------------------------------------------------------------------------------------------------------
OP_NAMES = ["build_spline"] * 4 + ["remove_chr"] * 3 + ["derive"] * 3 + ["remove_row", "copy", "deepcopy", "reconstruct", "set_genpos"]


@st.composite
def history_case(draw):
    mc = draw(map_strategy())
    mc["auto_group"] = True
    ops = []
    for _ in range(draw(st.integers(1, 8))):
        name = draw(st.sampled_from(OP_NAMES))
        op = {"op": name, "slot": draw(st.integers(0, 3)), "c": draw(st.integers(0, 10 ** 6)), "k": draw(st.integers(0, 10 ** 6)),
              "how": draw(st.integers(0, 2))}
        if name == "derive":
            op["qs"] = draw(st.lists(QUERY, min_size=1, max_size=8))
        ops.append(op)
    return {"map": mc, "ops": ops, "queries": draw(st.lists(QUERY, min_size=0, max_size=6))}


def _model_rows(model):
    chr_l = [c for c in sorted(model) for _ in model[c][0]]
    phy_l = [x for c in sorted(model) for x in model[c][0]]
    gen_l = [y for c in sorted(model) for y in model[c][1]]
    return chr_l, phy_l, gen_l


def _new_map(cls, chr_l, phy_l, gen_l, dt="int64", **kw):
    vc = chr_array(chr_l, dt)
    vx = numpy.array(phy_l, dtype="int64")
    vg = numpy.array(gen_l, dtype="float64")
    if cls == "standard":
        return StandardGeneticMap(vc, vx, vg, **kw)
    return ExtendedGeneticMap(vc, vx, vx + 1, vg, **kw)


def _verify_slot(ctx, slots, i, fixed_q, prefix, trail, qdt="int64"):
    """slot i against the reference model of its CURRENT rows (interpolation only when its interpolant is current)"""
    slot = slots[i]
    m, model = slot["m"], slot["model"]
    chr_l, phy_l, gen_l = _model_rows(model)
    ctx.check(m.vrnt_chrgrp.tolist() == chr_l and m.vrnt_phypos.tolist() == phy_l and m.vrnt_genpos.tolist() == gen_l,
              prefix + "stored_rows", lambda: "map #%d after %s: rows %s %s %s expected %s %s %s" % (
                  i, trail, m.vrnt_chrgrp.tolist(), m.vrnt_phypos.tolist(), m.vrnt_genpos.tolist(), chr_l, phy_l, gen_l))
    if not slot["fresh"]:
        return
    qs = list(fixed_q) + list(zip(chr_l, phy_l))
    for c in sorted(model):
        xs = model[c][0]
        qs.extend((c, (xs[k] + xs[k + 1]) // 2) for k in range(len(xs) - 1))
    qc = chr_array([q[0] for q in qs], qdt)
    qx = numpy.array([q[1] for q in qs], dtype="int64")
    got = m.interp_genpos(qc, qx).tolist()
    for (c, x), g in zip(qs, got):
        where = lambda: "map #%d (%s, chromosomes %s) after %s: chromosome %d position %d -> %r" % (
            i, slot["origin"], sorted(model), trail, c, x, g)
        if c not in model:
            ctx.label("history_query_on_chromosome_that_left_the_map", c in slot["had"])
            ctx.check(math.isnan(g), prefix + "absent_chromosome_is_missing", where)
            continue
        val, tol, between = ref_interp(model, c, x)
        ctx.check(not math.isnan(g), prefix + "present_chromosome_is_not_missing", where)
        xs = model[c][0]
        clause = "own_marker_returns_stored_position" if x in xs else (
            "linear_between_flanking_markers" if between else "linear_continuation_beyond_ends")
        ctx.check(abs(g - val) <= tol, prefix + clause, lambda: where() + " expected %r (tol %r); chromosome map %s" % (val, tol, model[c]))


def check_history(case, ctx):
    mc = case["map"]
    cls = mc["cls"]
    perm = [int(i) for i in mc["perm"]]
    model0 = ref_model(mc)
    ctx.label(cls)
    ldt, qdt = mc.get("lab_dtype", "int64"), mc.get("qdtype", "int64")
    label_labels(ctx, sorted(model0), ldt)
    m0 = build_map(mc, perm)
    # fixed query set: every marker position of the ORIGINAL map (so chromosomes that leave a map keep being queried) + drawn ones
    fixed_q = [(c, x) for c in sorted(model0) for x in model0[c][0]]
    fixed_q += [(q[0], q[1]) for q in build_queries(mc, case["queries"])]
    slots = [{"m": m0, "model": {c: (list(xs), list(ys)) for c, (xs, ys) in model0.items()}, "fresh": True,
              "origin": "constructed", "had": set(model0)}]
    _verify_slot(ctx, slots, 0, fixed_q, "history.", "construction", qdt)
    trail = []
    seen = set()
    for op in case["ops"]:
        name = op["op"]
        i = int(op["slot"]) % len(slots)
        slot = slots[i]
        m, model = slot["m"], slot["model"]
        labels = sorted(model)
        how = int(op["how"]) % 3
        if name in ("derive", "reconstruct") and (not slot["fresh"] or len(slots) >= 6):
            name = "build_spline"      # a map is derived from a map whose interpolant is current: rebuild first
        if name in ("copy", "deepcopy") and len(slots) >= 6:
            name = "build_spline"
        if name == "remove_chr" and len(labels) < 2:
            name = "remove_row"
        if name == "remove_row" and not any(len(model[c][0]) >= 3 for c in labels):
            name = "build_spline"

        if name == "build_spline":
            m.build_spline()
            slot["fresh"] = True
            ctx.label("rebuilt_after_chromosome_left", bool(slot["had"] - set(model)))
        elif name in ("remove_chr", "remove_row"):
            chr_l, phy_l, gen_l = _model_rows(model)
            if name == "remove_chr":
                lab = labels[int(op["c"]) % len(labels)]
                drop = [j for j in range(len(chr_l)) if chr_l[j] == lab]
                del model[lab]
            else:
                cand = [c for c in labels if len(model[c][0]) >= 3]
                lab = cand[int(op["c"]) % len(cand)]
                k = int(op["k"]) % len(model[lab][0])
                drop = [[j for j in range(len(chr_l)) if chr_l[j] == lab][k]]
                del model[lab][0][k]
                del model[lab][1][k]
            keep = [j for j in range(len(chr_l)) if j not in drop]
            if how == 0:
                m.remove(numpy.array(drop, dtype="int64"))
            elif how == 1:
                mask = numpy.ones(len(chr_l), dtype=bool)
                mask[drop] = False
                m.select(mask)
            else:
                m.select(numpy.array(keep, dtype="int64"))
            name = "%s(%d)via_%s" % (name, lab, ("remove", "select_mask", "select_indices")[how])
            slot["fresh"] = False
        elif name == "set_genpos":
            a, b = ((2.0, 0.25), (0.5, 0.0), (1.0, 1.0))[how]
            for c in labels:
                model[c] = (model[c][0], [a * y + b for y in model[c][1]])
            m.vrnt_genpos = numpy.array(_model_rows(model)[2], dtype="float64")
            slot["fresh"] = False
        elif name in ("copy", "deepcopy"):
            new = (m.copy() if how else __import__("copy").copy(m)) if name == "copy" else (m.deepcopy() if how else __import__("copy").deepcopy(m))
            ctx.check(type(new) is type(m) and new is not m, "history.copy_class")
            slots.append({"m": new, "model": {c: (list(xs), list(ys)) for c, (xs, ys) in model.items()}, "fresh": slot["fresh"],
                          "origin": "%s of #%d" % (name, i), "had": set(slot["had"])})
        elif name == "derive":
            # a marker panel on a subset of the source's chromosomes, >= 2 distinct positions on each, rows in drawn order
            dq = [q for q in build_queries_x({c: model[c][0] for c in labels}, op["qs"]) if q[2] != "absent"]
            if not dq:
                dq = [(labels[0], model[labels[0]][0][0], "own")]
            panel = []
            for q in dq:
                if (q[0], q[1]) not in panel:
                    panel.append((q[0], q[1]))
            for c in sorted(set(q[0] for q in panel)):
                if sum(1 for q in panel if q[0] == c) < 2:
                    x = [q[1] for q in panel if q[0] == c][0]
                    panel.append((c, x + 1 + int(op["k"]) % 50))
            pc = chr_array([q[0] for q in panel], qdt)
            px = numpy.array([q[1] for q in panel], dtype="int64")
            new = m.interp_gmap(pc, px) if cls == "standard" else m.interp_gmap(pc, px, px + 1)
            ctx.check(type(new) is type(m), "history.derived_map_class")
            order = sorted(range(len(panel)), key=lambda j: panel[j])
            stored = new.vrnt_genpos.tolist()
            ok = new.vrnt_chrgrp.tolist() == [panel[j][0] for j in order] and new.vrnt_phypos.tolist() == [panel[j][1] for j in order]
            ctx.check(ok and len(stored) == len(panel), "history.derived_map_rows_are_the_panel_sorted",
                      lambda: "%s %s for panel %s" % (new.vrnt_chrgrp.tolist(), new.vrnt_phypos.tolist(), panel))
            nmodel = {}
            for j, y in zip(order, stored):
                c, x = panel[j]
                val, tol, _ = ref_interp(model, c, x)
                ctx.check(abs(y - val) <= tol, "history.derived_map_positions_are_interpolated",
                          lambda: "panel marker %s of map derived from #%d after %s: %r expected %r" % ((c, x), i, trail, y, val))
                nmodel.setdefault(c, ([], []))
                nmodel[c][0].append(x)
                nmodel[c][1].append(y)
            # the derived map carries (a copy of) the source's interpolant until build_spline() is called on it
            slots.append({"m": new, "model": nmodel, "fresh": False, "origin": "interp_gmap of #%d" % i, "had": set(model)})
            ctx.label("derived_map_lacks_a_source_chromosome", len(nmodel) < len(model))
        elif name == "reconstruct":
            # the constructor is handed (a copy of) another map's spline dictionary and builds its own ("overwritten")
            sub = [c for n_, c in enumerate(labels) if (int(op["c"]) >> n_) & 1] or labels
            nmodel = {c: (list(model[c][0]), list(model[c][1])) for c in sub}
            chr_l, phy_l, gen_l = _model_rows(nmodel)
            new = _new_map(cls, chr_l[::-1], phy_l[::-1], gen_l[::-1], ldt, spline=dict(m.spline))
            slots.append({"m": new, "model": nmodel, "fresh": True, "origin": "constructed with the spline dictionary of #%d" % i,
                          "had": set(model)})
        trail.append("%s#%d" % (name, i))
        base = name.split("(")[0]
        if base not in seen:
            seen.add(base)
            ctx.label("op_" + base)
        # every map is re-examined: the one just operated on (or created) and all the others
        target = len(slots) - 1 if name in ("copy", "deepcopy", "derive", "reconstruct") else i
        tr = " -> ".join(trail)
        for j in range(len(slots)):
            _verify_slot(ctx, slots, j, fixed_q, "history." if j == target else "history.other_map.", tr, qdt)
    nfresh = sum(1 for s_ in slots if s_["fresh"])
    ctx.label("maps>=2", len(slots) >= 2)
    ctx.label("other_map_rebuilt_while_source_alive", len(slots) >= 2 and any(t.startswith("build_spline#") and not t.endswith("#0") for t in trail))
    ctx.nontrivial(len(trail) >= 3 and nfresh >= 1 and (len(slots) >= 2 or any(s_["had"] - set(s_["model"]) for s_ in slots)))


# ----------------------------------------------------------------------------------------------------------------------
# sub-check: requery (one map object is asked again and again; the caller re-uses its marker arrays and edits them in place)
# ----------------------------------------------------------------------------------------------------------------------
RQ_METHODS = ["interp_genpos", "interp_genpos", "gdist1p", "gdist2p", "rprob1p", "rprob2p", "interp_gmap"]
RQ_EDITS = ["positions", "positions", "positions", "one_position", "relabel", "all", "none"]


@st.composite
def requery_case(draw):
    n = draw(st.integers(1, 9))
    qlist = st.lists(QUERY, min_size=n, max_size=n)
    rounds = []
    for _ in range(draw(st.integers(2, 6))):
        rounds.append({"holder": draw(st.sampled_from(["A", "A", "A", "B", "G", "G"])),
                       "method": draw(st.sampled_from(RQ_METHODS)), "edit": draw(st.sampled_from(RQ_EDITS)),
                       "qs": draw(qlist), "k": draw(st.integers(0, 10 ** 6)), "write": draw(st.integers(0, 2)),
                       "matrix_call": draw(st.sampled_from(["interp_xoprob", "interp_xoprob", "interp_genpos"])),
                       "regroup": draw(st.booleans()), "rebuild": draw(st.sampled_from([False] * 7 + [True]))})
    return {"map": draw(map_strategy()), "init": draw(qlist), "rounds": rounds, "fn": draw(st.sampled_from(["haldane", "kosambi"])),
            "sorted": draw(st.sampled_from([True, True, True, False])), "phased": draw(st.booleans())}


def _rq_kind(model, c, x):
    if c not in model:
        return "absent"
    xs = model[c][0]
    return "own" if x in xs else ("mid" if xs[0] < x < xs[-1] else "beyond")


def _rq_edit(model, state, rd, keep_sorted, absent=None):
    """the marker set the caller wants to ask about next, derived from the one the arrays hold now"""
    n = len(state)
    model_x = {c: model[c][0] for c in model}
    edit = rd["edit"]
    if edit == "none":
        return list(state)
    if edit == "all":
        new = [(q[0], q[1]) for q in build_queries_x(model_x, rd["qs"], absent)]
    elif edit in ("positions", "one_position"):
        # same chromosomes, other positions (one marker corrected / a drawn subset of the markers moved)
        which = {int(rd["k"]) % n} if edit == "one_position" else {i for i in range(n) if (int(rd["k"]) >> i) & 1} or {int(rd["k"]) % n}
        new = []
        for i, (c, x) in enumerate(state):
            if i in which:
                q = rd["qs"][i]
                if c in model_x:
                    x = build_queries_x({c: model_x[c]}, [dict(q, kind=("own" if q["kind"] == "absent" else q["kind"]))])[0][1]
                else:
                    x = int(q["off"]) % 5000
            new.append((c, x))
    else:
        # every marker of one chromosome of the set moves to another label (in the map or not) that the set does not use yet
        used = sorted(set(c for c, _ in state))
        src = used[int(rd["k"]) % len(used)]
        cand = [c for c in sorted(model_x) + absent_labels(model_x, absent) if c not in used]
        if not cand:
            return list(state)
        dst = cand[(int(rd["k"]) // 7) % len(cand)]
        new = []
        for i, (c, x) in enumerate(state):
            if c == src:
                q = rd["qs"][i]
                if dst in model_x:
                    x = build_queries_x({dst: model_x[dst]}, [dict(q, kind=("mid" if q["kind"] == "absent" else q["kind"]))])[0][1]
                c = dst
            new.append((c, x))
    return sorted(new) if keep_sorted else new


def _rq_write(arr, values, how):
    """in place, through the array object the caller already holds"""
    new = numpy.array(values, dtype=arr.dtype)
    if how == 0:
        for i in numpy.flatnonzero(arr != new).tolist():
            arr[i] = new[i]
    elif how == 1:
        arr[:] = new
    else:
        numpy.copyto(arr, new)


def _rq_positions(ctx, model, qs, got, what):
    ctx.check(isinstance(got, numpy.ndarray) and got.shape == (len(qs),), "requery.shape", lambda: "%s: %r" % (what, getattr(got, "shape", None)))
    refs = [ref_interp(model, c, x) for c, x in qs]
    for (c, x), (val, tol, _), g in zip(qs, refs, numpy.asarray(got, dtype="float64").ravel().tolist()):
        msg = lambda: "%s: chromosome %d position %d -> %r expected %r; marker set now %s" % (what, c, x, g, val, qs)
        if c not in model:
            ctx.check(math.isnan(g), "requery.absent_chromosome_is_missing", msg)
        else:
            ctx.check(not math.isnan(g) and abs(g - val) <= tol, "requery.positions_are_those_of_the_marker_set_passed_now", msg)
    return refs


def _rq_seq(ctx, model, qs, refs, got, what, kind=None):
    """sequential distances (kind None) or recombination probabilities (map function kind) of a sorted marker set"""
    clause = "requery.distances_are_those_of_the_marker_set_passed_now" if kind is None else \
        "requery.probabilities_are_those_of_the_marker_set_passed_now"
    n = len(qs)
    ctx.check(isinstance(got, numpy.ndarray) and got.shape == (n,), "requery.shape", lambda: "%s: %r" % (what, getattr(got, "shape", None)))
    gl = numpy.asarray(got, dtype="float64").ravel().tolist()
    for i in range(n):
        msg = lambda: "%s: index %d -> %r; marker set now %s" % (what, i, gl[i], qs)
        if i == 0 or qs[i][0] != qs[i - 1][0]:
            ctx.check(gl[i] == (INF if kind is None else 0.5), clause, msg)
        elif qs[i][0] not in model:
            ctx.check(math.isnan(gl[i]), clause, msg)
        else:
            d = refs[i][0] - refs[i - 1][0]
            tol = refs[i][1] + refs[i - 1][1] + 4 * EPS * abs(d)
            if kind is None:
                ctx.check(abs(gl[i] - d) <= tol, clause, lambda: msg() + " expected %r" % d)
            elif d < -tol:
                ctx.label("negative_distance_skipped")      # non-congruent map: outside the domain of the map functions
            else:
                exp = ref_mapfn(kind, max(d, 0.0))
                ctx.check(abs(gl[i] - exp) <= 4 * EPS + 2 * tol, clause, lambda: msg() + " expected %r" % exp)


def _rq_pair(ctx, model, qs, refs, got, what, kind=None):
    clause = "requery.distances_are_those_of_the_marker_set_passed_now" if kind is None else \
        "requery.probabilities_are_those_of_the_marker_set_passed_now"
    n = len(qs)
    ctx.check(isinstance(got, numpy.ndarray) and got.shape == (n, n), "requery.shape", lambda: "%s: %r" % (what, getattr(got, "shape", None)))
    if not (isinstance(got, numpy.ndarray) and got.shape == (n, n)):
        return
    for i in range(n):
        for j in range(n):
            v = float(got[i, j])
            msg = lambda: "%s: [%d,%d] -> %r; marker set now %s" % (what, i, j, v, qs)
            if qs[i][0] != qs[j][0]:
                ctx.check(v == (INF if kind is None else 0.5), clause, msg)
            elif qs[i][0] not in model:
                ctx.check(math.isnan(v), clause, msg)
            else:
                d = abs(refs[i][0] - refs[j][0])
                tol = refs[i][1] + refs[j][1] + 4 * EPS * d
                exp = d if kind is None else ref_mapfn(kind, d)
                ctx.check(abs(v - exp) <= tol + (0.0 if kind is None else 4 * EPS), clause, lambda: msg() + " expected %r" % exp)


def check_requery(case, ctx):
    mc = case["map"]
    cls = mc["cls"]
    kind = case["fn"]
    f = make_mapfn(kind)
    model = ref_model(mc)
    keep_sorted = bool(case["sorted"])
    m = build_map(mc, [int(i) for i in mc["perm"]])
    if not mc.get("auto_group", True):
        m.group()
    ctx.label(cls)
    ctx.label(kind)
    ctx.label("marker_set_sorted" if keep_sorted else "marker_set_in_drawn_order")
    init = [(q[0], q[1]) for q in build_queries(mc, case["init"])]
    if keep_sorted:
        init = sorted(init)
    p = len(init)
    # arrays A (and the matrix) carry labels in the query dtype of the case, arrays B in the map's own dtype
    ldt, qdt = mc.get("lab_dtype", "int64"), mc.get("qdtype", "int64")
    label_labels(ctx, sorted(model), ldt)
    holders = {}
    for name in ("A", "B"):
        holders[name] = {"qc": chr_array([q[0] for q in init], qdt if name == "A" else ldt),
                         "qx": numpy.array([q[1] for q in init], dtype="int64"), "state": list(init), "calls": 0}
    g = None
    if keep_sorted:
        tag = (numpy.arange(p, dtype="int8") % 2)
        gc = chr_array([q[0] for q in init], qdt)
        gx = numpy.array([q[1] for q in init], dtype="int64")
        if case["phased"]:
            g = DensePhasedGenotypeMatrix(numpy.broadcast_to(tag, (2, 1, p)).astype("int8"), vrnt_chrgrp=gc, vrnt_phypos=gx)
        else:
            g = DenseGenotypeMatrix(numpy.broadcast_to(tag, (1, p)).astype("int8"), vrnt_chrgrp=gc, vrnt_phypos=gx)
        g.group_vrnt()
        holders["G"] = {"state": list(init), "calls": 0}

    requeried = 0
    for r, rd in enumerate(case["rounds"]):
        hname = rd["holder"] if rd["holder"] in holders else "A"
        h = holders[hname]
        new = _rq_edit(model, h["state"], rd, keep_sorted, mc.get("absent"))
        changed = new != h["state"]
        if rd["rebuild"]:
            m.build_spline()
            ctx.label("build_spline_between_calls")
        if hname == "G":
            qc, qx = g.vrnt_chrgrp, g.vrnt_phypos        # the public getters: the caller edits what they hand out
            counts = lambda st_: [sum(1 for q in st_ if q[0] == c) for c in sorted(set(q[0] for q in st_))]
            same_runs = counts(new) == counts(h["state"])
            chr_changed = [q[0] for q in new] != [q[0] for q in h["state"]]
        else:
            qc, qx = h["qc"], h["qx"]
        _rq_write(qc, [q[0] for q in new], int(rd["write"]))
        _rq_write(qx, [q[1] for q in new], int(rd["write"]))
        if hname == "G":
            if chr_changed and (not same_runs or rd["regroup"]):
                g.group_vrnt()                              # run lengths changed: the caller groups the matrix again
                ctx.label("matrix_regrouped_after_edit")
            # what the matrix holds now is what is asked about (read back, so nothing hinges on how the getters hand out arrays)
            qs = list(zip(g.vrnt_chrgrp.tolist(), g.vrnt_phypos.tolist()))
            ctx.label("matrix_edit_took_effect", changed and sorted(qs) == sorted(new))
            h["state"] = qs
            what = "round %d: genotype matrix (%s edited in place through its getters) .%s" % (
                r, "contents" if changed else "nothing", rd["matrix_call"])
            if rd["matrix_call"] == "interp_genpos":
                g.interp_genpos(m)
                _rq_positions(ctx, model, qs, g.vrnt_genpos, what)
            else:
                g.interp_xoprob(m, f)
                refs = _rq_positions(ctx, model, qs, g.vrnt_genpos, what)
                _rq_seq(ctx, model, qs, refs, g.vrnt_xoprob, what, kind)
            ctx.check(list(zip(g.vrnt_chrgrp.tolist(), g.vrnt_phypos.tolist())) == qs, "requery.input_mutated", what)
        else:
            h["state"] = new
            qs = new
            method = rd["method"] if keep_sorted or rd["method"] in ("interp_genpos", "interp_gmap") else "interp_genpos"
            what = "round %d: %s(arrays %s, %s since the previous call with them)" % (
                r, method, hname, "edited in place" if changed else "unchanged")
            snap_c, snap_x = qc.copy(), qx.copy()
            if method == "interp_genpos":
                _rq_positions(ctx, model, qs, m.interp_genpos(qc, qx), what)
            elif method == "interp_gmap":
                im = m.interp_gmap(qc, qx) if cls == "standard" else m.interp_gmap(qc, qx, qx + 1)
                rows_im = list(zip(im.vrnt_chrgrp.tolist(), im.vrnt_phypos.tolist()))
                ctx.check(sorted(rows_im) == sorted(qs), "requery.derived_map_rows_are_the_marker_set_passed_now",
                          lambda: "%s: rows %s" % (what, rows_im))
                if sorted(rows_im) == sorted(qs):      # every row's value is the interpolant at that row's position
                    _rq_positions(ctx, model, rows_im, numpy.array(im.vrnt_genpos, dtype="float64"), what)
            else:
                refs = [ref_interp(model, c, x) for c, x in qs]
                if method == "gdist1p":
                    _rq_seq(ctx, model, qs, refs, m.gdist1p(qc, qx), what)
                elif method == "gdist2p":
                    _rq_pair(ctx, model, qs, refs, m.gdist2p(qc, qx), what)
                elif method == "rprob1p":
                    _rq_seq(ctx, model, qs, refs, f.rprob1p(m, qc, qx), what, kind)
                else:
                    _rq_pair(ctx, model, qs, refs, f.rprob2p(m, qc, qx), what, kind)
            ctx.check(numpy.array_equal(qc, snap_c) and numpy.array_equal(qx, snap_x), "requery.input_mutated", what)
            ctx.label("method_" + method)
        if keep_sorted and qs:
            label_labels(ctx, None, None, [q[0] for q in qs], qdt if hname != "B" else ldt)
        if h["calls"] >= 1 and changed:
            requeried += 1
            ctx.label("same_arrays_asked_again_after_in_place_edit")
            ctx.label("same_matrix_asked_again_after_in_place_edit", hname == "G")
            ctx.label("edit_" + rd["edit"])
        h["calls"] += 1
    ctx.nontrivial(requeried >= 1 and any(_rq_kind(model, c, x) in ("own", "mid") for hh in holders.values() for c, x in hh["state"]))


SUBCHECKS = [
    SubCheck("mapfn", check_mapfn, mapfn_case(), quick=600, thorough=5000, shards_quick=2,
             rule="both map functions x up to 12 distances (pool incl. 0, subnormal, 1e-8, 0.5, 5, 20, 1e3, inf + floats) x up to 12 "
                  "probabilities (pool incl. 0, 0.5-ulp, 0.5 + floats) x 1d/2d/scalar; non-trivial = >=3 distinct d and >=3 distinct r",
             required_labels=("haldane", "kosambi", "d_has_0", "d_has_inf", "r_has_0.5", "d_has_subnormal")),
    SubCheck("gdist", check_gdist, gdist_case(), quick=400, thorough=4000, shards_quick=2,
             rule="1-4 chromosomes (labels: arbitrary integers of any integer dtype) x 1-6 markers sorted jointly, ties included, "
                  "both classes, optional slices; "
                  "non-trivial = >=2 chromosomes and an ordered triple on one of them",
             required_labels=("nchr>=2", "single_marker_chromosome", "tied_positions", "chr_label_negative", "chr_label_beyond_32_bits",
                              "chr_dtype_narrow_or_unsigned", "chr_label_is_dtype_min", "chr_label_is_dtype_max",
                              "first_queried_label_is_-1", "first_queried_label_is_0")),
    SubCheck("interp", check_interp, interp_case(), quick=600, thorough=4000, shards_quick=4,
             rule="1-5 chromosomes (labels: arbitrary integers of any integer dtype, queries possibly in another dtype) x 2-8 markers "
                  "(unique physical positions; congruent, flat and non-congruent genetic "
                  "positions), shuffled rows, both classes, M/cM, queries (own, strictly between, beyond ends, absent chromosome); "
                  "non-trivial = >=2 chromosomes, >=1 query strictly between markers, rows actually permuted",
             required_labels=("standard", "extended", "units=cM", "rows_permuted", "non_congruent", "query_own", "query_mid",
                              "query_left", "query_right", "query_absent", "interp_gmap_layout_same_as_source",
                              "chr_label_negative", "chr_label_beyond_32_bits", "chr_dtype_narrow_or_unsigned", "chr_label_is_dtype_min",
                              "chr_label_is_dtype_max", "first_queried_label_is_-1", "first_queried_label_is_0",
                              "query_dtype_differs_from_map_dtype")),
    SubCheck("xoprob", check_xoprob, xoprob_case(), quick=500, thorough=4000, shards_quick=4,
             rule="map as in interp x genotype matrix (phased/unphased) whose variants are queries in drawn order x map function; "
                  "non-trivial = variants on >=2 chromosomes and >=1 strictly between map markers",
             required_labels=("haldane", "kosambi", "phased", "unphased", "has_absent_chromosome", "variants_on>=2_chromosomes",
                              "chr_label_negative", "chr_dtype_narrow_or_unsigned", "first_queried_label_is_-1", "first_queried_label_is_0",
                              "first_queried_label_is_dtype_min_or_max", "matrix_dtype_differs_from_map_dtype")),
    SubCheck("history", check_history, history_case(), quick=300, thorough=4000, shards_quick=4,
             rule="map as in interp x 1-8 operations on up to 6 live map objects (build_spline again, remove/select a whole "
                  "chromosome or one marker, reassign genetic positions, interp_gmap on a sub-panel, copy/deepcopy, constructor "
                  "given another map's spline dictionary); after every operation every map with a current interpolant is compared "
                  "with the reference of its current rows at the original map's positions and its own markers; non-trivial = "
                  ">=3 operations and (>=2 maps or a map that lost a chromosome)",
             required_labels=("standard", "extended", "op_build_spline", "op_remove_chr", "op_derive", "maps>=2",
                              "rebuilt_after_chromosome_left", "history_query_on_chromosome_that_left_the_map",
                              "other_map_rebuilt_while_source_alive")),
    SubCheck("requery", check_requery, requery_case(), quick=300, thorough=3000, shards_quick=2,
             rule="map as in interp x ONE map object asked 2-6 times (interp_genpos, gdist1p, gdist2p, rprob1p, rprob2p, interp_gmap, or "
                  "a genotype matrix's interp_xoprob / interp_genpos) with marker arrays the caller keeps (two array pairs and a "
                  "genotype matrix's own arrays reached through its getters) and edits IN PLACE between the calls (one position, "
                  "several positions, a chromosome relabelled, everything, nothing); every answer is compared with the reference for "
                  "the contents at the time of the call; non-trivial = >=1 call with arrays that were passed before and edited since, "
                  "and a marker at or between map markers",
             required_labels=("standard", "extended", "same_arrays_asked_again_after_in_place_edit",
                              "same_matrix_asked_again_after_in_place_edit", "matrix_edit_took_effect", "method_gdist1p",
                              "method_gdist2p", "method_rprob1p", "method_rprob2p", "method_interp_gmap", "method_interp_genpos",
                              "edit_positions", "edit_one_position", "edit_relabel", "edit_all", "chr_label_negative",
                              "chr_dtype_narrow_or_unsigned", "first_queried_label_is_-1", "first_queried_label_is_0")),
]
