"""C02 — realised recombination and segregation match the crossover probabilities (fixed-seed statistical tests).

Every test is an exact two-sided binomial test against the *declared* probability.  False-alarm budget: ALPHA_RUN per
run, Bonferroni-divided by a fixed upper bound on the number of tests a run can perform.
"""
import math

import numpy
from hypothesis import strategies as st
from scipy import stats

from pbt import compat  # noqa: F401
from pbt.core import SubCheck
from pbt import gens

from pybrops.breed.prot.mate import util as mate_util
from pybrops.core.util import mate as core_mate
from pybrops.popgen.gmap.StandardGeneticMap import StandardGeneticMap
from pybrops.popgen.gmap.ExtendedGeneticMap import ExtendedGeneticMap
from pybrops.popgen.gmap.HaldaneMapFunction import HaldaneMapFunction
from pybrops.popgen.gmap.KosambiMapFunction import KosambiMapFunction
from pybrops.popgen.gmat.DensePhasedGenotypeMatrix import DensePhasedGenotypeMatrix
from pbt.checks.c01 import PROTOCOLS

ALPHA_RUN = 1e-9
MAX_TESTS_PER_RUN = 400000          # generous upper bound (thorough: 16 shards x 3 sub-checks x cases x ~150 tests)
ALPHA_TEST = ALPHA_RUN / MAX_TESTS_PER_RUN

ASSUMPTIONS = [
    "statistical clauses: exact binomial tests at per-test alpha %.1e (run budget %.0e); deviations below ~7.4 standard errors "
    "(about 0.026 at N=20000, 0.008 at N=200000) are not detectable" % (ALPHA_TEST, ALPHA_RUN),
    "outcomes are deterministic for a given VERIF_SEED; alpha only bounds how often a new seed could raise a false alarm",
]

N_GAMETES = {"quick": 20000, "thorough": 200000}
_TIER = {"tier": "quick"}


def _binom(ctx, k, n, p, clause, msg):
    """exact two-sided binomial test of k successes in n trials against declared probability p"""
    ctx.notes["tests"] = ctx.notes.get("tests", 0) + 1
    p = min(max(float(p), 0.0), 1.0)
    if n == 0:
        return
    if p == 0.0:
        ctx.check(k == 0, clause, lambda: "%s: %d of %d events at declared probability 0" % (msg, k, n))
        return
    if p == 1.0:
        ctx.check(k == n, clause, lambda: "%s: %d of %d events at declared probability 1" % (msg, k, n))
        return
    pv = stats.binomtest(int(k), int(n), p).pvalue
    ctx.check(pv >= ALPHA_TEST, clause,
              lambda: "%s: observed %d/%d = %.5f, declared %.6g, exact binomial p-value %.3g < %.3g" % (msg, k, n, k / n, p, pv, ALPHA_TEST))


def haldane(d):
    return 0.5 * (-math.expm1(-2.0 * d)) if math.isfinite(d) else 0.5


def kosambi(d):
    return 0.5 * math.tanh(2.0 * d) if math.isfinite(d) else 0.5


@st.composite
def layout(draw, pmax=10):
    """marker layout + crossover probabilities, free or derived from a genetic map by pybrops itself"""
    p = draw(st.integers(2, pmax))
    nchr = draw(st.integers(1, min(3, p // 2))) if p >= 2 else 1
    cuts = sorted(draw(st.lists(st.integers(2, p - 2), min_size=nchr - 1, max_size=nchr - 1, unique=True))) if nchr > 1 else []
    # keep every chromosome at least 2 markers long where possible (cuts at >=2 apart)
    bounds = [0]
    for c in cuts:
        if c - bounds[-1] >= 2 and p - c >= 2:
            bounds.append(c)
    bounds.append(p)
    runs = [bounds[i + 1] - bounds[i] for i in range(len(bounds) - 1)]
    mode = draw(st.sampled_from(["free", "free", "haldane", "haldane", "kosambi"]))
    lay = {"p": p, "runs": runs, "mode": mode}
    starts = set(bounds[:-1])
    if mode == "free":
        xo = []
        for j in range(p):
            if j in starts:
                xo.append(draw(st.sampled_from([0.5, 0.5, 0.5, 0.0, 0.2])))
            else:
                xo.append(draw(st.sampled_from([0.0, 0.02, 0.1, 0.25, 0.4, 0.5, 0.33, 1e-12])))
        # force an adjacent pair that differs by >= 0.1 so that a one-marker shift is visible
        inner = [j for j in range(1, p - 1) if j not in starts and (j + 1) not in starts]
        if inner:
            j = inner[draw(st.integers(0, len(inner) - 1))]
            xo[j], xo[j + 1] = 0.05, 0.35
        lay["xoprob"] = xo
    else:
        # genetic distances to the previous marker (Morgans); first of each chromosome has an arbitrary origin
        lay["gdist"] = [draw(st.sampled_from([0.0, 0.01, 0.05, 0.1, 0.2, 0.35, 0.7, 1.5])) for _ in range(p)]
        lay["origin"] = [draw(st.sampled_from([0.0, 0.3, 2.0])) for _ in runs]
        lay["shuffle_seed"] = draw(st.integers(0, 1000))
    return lay


def realise_layout(lay, n_taxa):
    """returns (pgmat with tagged founders, xoprob actually stored, genpos or None, chromosome start indices)"""
    p, runs = lay["p"], lay["runs"]
    chrgrp, phypos = [], []
    for c, r in enumerate(runs):
        for q in range(r):
            chrgrp.append(c + 1)
            phypos.append(10 * (q + 1))
    starts = [0]
    for r in runs[:-1]:
        starts.append(starts[-1] + r)
    mat = gens.tagged_geno(n_taxa, p)
    kw = dict(vrnt_chrgrp=numpy.array(chrgrp, dtype="int64"), vrnt_phypos=numpy.array(phypos, dtype="int64"))
    genpos = None
    if lay["mode"] == "free":
        pg = DensePhasedGenotypeMatrix(mat=mat, vrnt_xoprob=numpy.array(lay["xoprob"], dtype="float64"), **kw)
        pg.group_vrnt()
    else:
        genpos = []
        k = 0
        for c, r in enumerate(runs):
            g = lay["origin"][c]
            for q in range(r):
                if q > 0:
                    g += lay["gdist"][k]
                genpos.append(g)
                k += 1
        # the map is handed to pybrops in shuffled row order
        perm = numpy.random.RandomState(lay["shuffle_seed"]).permutation(p)
        # ... through either genetic-map class, grouped by the constructor or left in file order (derived from the
        # shuffle seed so that earlier replay files keep their meaning: seed % 4 == 0 is the original form)
        form = lay["shuffle_seed"] % 4
        mc, mx, mg = (numpy.array(chrgrp, dtype="int64")[perm], numpy.array(phypos, dtype="int64")[perm],
                      numpy.array(genpos, dtype="float64")[perm])
        if form == 0:
            gmap = StandardGeneticMap(vrnt_chrgrp=mc, vrnt_phypos=mx, vrnt_genpos=mg)
        elif form == 1:
            gmap = StandardGeneticMap(vrnt_chrgrp=mc, vrnt_phypos=mx, vrnt_genpos=mg, auto_group=False)
        else:
            gmap = ExtendedGeneticMap(mc, mx, mx + 1, mg, auto_group=(form == 2))
        pg = DensePhasedGenotypeMatrix(mat=mat, **kw)
        pg.group_vrnt()
        pg.interp_xoprob(gmap, HaldaneMapFunction() if lay["mode"] == "haldane" else KosambiMapFunction())
    return pg, numpy.array(pg.vrnt_xoprob, dtype="float64"), genpos, starts


def declared_xoprob(lay, starts):
    """what the property says the stored crossover probabilities must be (oracle side, from the map, not from pybrops)"""
    if lay["mode"] == "free":
        return list(lay["xoprob"])
    f = haldane if lay["mode"] == "haldane" else kosambi
    out = []
    for j in range(lay["p"]):
        out.append(0.5 if j in starts else f(lay["gdist"][j]))
    return out


def stream_tests(ctx, S, xo, lay, genpos, starts, what, full=True):
    """S: (N,p) array of 0/1 = which of the two source copies was transmitted at each locus"""
    N, p = S.shape
    sw = S[:, 1:] != S[:, :-1]          # sw[:, j-1] : change entering marker j
    # (a) per-interval crossover frequency
    for j in range(1, p):
        _binom(ctx, int(sw[:, j - 1].sum()), N, xo[j], "a.interval_frequency", "%s interval entering marker %d" % (what, j))
    # (b) each copy transmitted with probability 1/2 at every locus when chromosome starts carry 0.5
    if xo[0] == 0.5:
        for j in range(p):
            _binom(ctx, int(S[:, j].sum()), N, 0.5, "b.segregation_half", "%s copy 1 at marker %d" % (what, j))
    if not full:
        return
    # (c) crossovers in different intervals are independent
    pairs = [(a, b) for a in range(1, p) for b in range(a + 1, p)]
    for (a, b) in pairs[:: max(1, len(pairs) // 8)][:8]:
        _binom(ctx, int((sw[:, a - 1] & sw[:, b - 1]).sum()), N, xo[a] * xo[b], "c.interval_independence",
               "%s joint crossover in intervals %d and %d" % (what, a, b))
    # (d) Haldane: non-adjacent markers on one chromosome recombine with the map function of their distance
    if lay["mode"] == "haldane":
        bnd = list(starts) + [p]
        for c in range(len(starts)):
            lo, hi = bnd[c], bnd[c + 1]
            for i in range(lo, hi):
                for k in range(i + 2, hi):
                    _binom(ctx, int((S[:, i] != S[:, k]).sum()), N, haldane(abs(genpos[k] - genpos[i])), "d.haldane_nonadjacent",
                           "%s markers %d,%d at distance %.4g M" % (what, i, k, abs(genpos[k] - genpos[i])))
    # (e) starts of different chromosomes assort independently
    for q in range(1, len(starts)):
        s1, s2 = starts[q - 1], starts[q]
        if xo[s2] == 0.5:
            _binom(ctx, int((S[:, s1] == S[:, s2]).sum()), N, 0.5, "e.chromosome_starts_independent",
                   "%s same copy at chromosome starts %d,%d" % (what, s1, s2))
            if s1 + 1 < s2:
                j = s1 + 1
                _binom(ctx, int((sw[:, j - 1] & sw[:, s2 - 1]).sum()), N, xo[j] * 0.5, "e.start_vs_interval_independent",
                       "%s crossover entering %d and reassortment at start %d" % (what, j, s2))
    # (f) different gametes are independent of each other
    cand = [j for j in range(1, p) if 0.1 <= xo[j] <= 0.4]
    for j in cand[:2]:
        both = sw[0:N - (N % 2):2, j - 1] & sw[1:N:2, j - 1]
        _binom(ctx, int(both.sum()), N // 2, xo[j] * xo[j], "f.gametes_independent", "%s consecutive gametes both cross over entering %d" % (what, j))
    if xo[0] == 0.5:
        same = S[0:N - (N % 2):2, 0] == S[1:N:2, 0]
        _binom(ctx, int(same.sum()), N // 2, 0.5, "f.gametes_independent_start", "%s consecutive gametes start on the same copy" % what)


def common_labels(ctx, lay, xo, starts):
    p = lay["p"]
    ctx.label("mode:" + lay["mode"])
    ctx.label("multi_chromosome", len(starts) > 1)
    ctx.label("exact0_interval", any(xo[j] == 0.0 for j in range(1, p)))
    ctx.label("exact0.5_interior", any(xo[j] == 0.5 and j not in starts for j in range(1, p)))
    ctx.label("start_not_half", xo[0] != 0.5)
    ctx.nontrivial(any(0.0 < xo[j] < 0.5 for j in range(1, p)))


def check_declared(ctx, stored, decl):
    for j, (a, b) in enumerate(zip(stored, decl)):
        ctx.check(abs(a - b) <= 1e-12, "xoprob_from_map", "marker %d: stored %r, map function of the map distance %r" % (j, float(a), b))


# ---- kernels ----------------------------------------------------------------------------------------------------
@st.composite
def kernel_case(draw):
    return {"kernel": draw(st.sampled_from(["mat_meiosis", "dense_meiosis", "mat_dh", "dense_dh", "mat_mate", "dense_cross"])),
            "lay": draw(layout()), "rng": draw(gens.rng_spec(scripted=False))}


def check_kernel(case, ctx):
    lay = case["lay"]
    N = N_GAMETES[_TIER["tier"]]
    pg, xo, genpos, starts = realise_layout(lay, 2)
    decl = declared_xoprob(lay, starts)
    check_declared(ctx, xo, decl)
    common_labels(ctx, lay, decl, starts)
    ctx.label(case["kernel"])
    rng = gens.build_rng(case["rng"])
    geno = pg.mat
    k = case["kernel"]
    if k.endswith("meiosis"):
        fn = mate_util.mat_meiosis if k == "mat_meiosis" else core_mate.dense_meiosis
        out = fn(geno, numpy.zeros(N, dtype="int64"), xo, rng)      # gametes of taxon 0: ids 0/1 = copy
        stream_tests(ctx, out.astype("int64"), decl, lay, genpos, starts, k)
    elif k.endswith("dh"):
        fn = mate_util.mat_dh if k == "mat_dh" else core_mate.dense_dh
        out = fn(geno, numpy.ones(N, dtype="int64"), xo, rng)        # taxon 1: ids 2/3
        stream_tests(ctx, out[0].astype("int64") - 2, decl, lay, genpos, starts, k)
    else:
        fn = mate_util.mat_mate if k == "mat_mate" else core_mate.dense_cross
        out = fn(geno, geno, numpy.zeros(N, dtype="int64"), numpy.ones(N, dtype="int64"), xo, rng)
        stream_tests(ctx, out[0].astype("int64"), decl, lay, genpos, starts, k + " female gamete")
        stream_tests(ctx, out[1].astype("int64") - 2, decl, lay, genpos, starts, k + " male gamete")
        # the two gametes of one progeny are independent
        j = next((j for j in range(1, lay["p"]) if 0.1 <= decl[j] <= 0.4), None)
        if j is not None:
            both = (out[0][:, j] != out[0][:, j - 1]) & (out[1][:, j] != out[1][:, j - 1])
            _binom(ctx, int(both.sum()), N, decl[j] ** 2, "f.female_male_gametes_independent", "%s interval %d" % (k, j))


# ---- protocols -------------------------------------------------------------------------------------------------
@st.composite
def protocol_case(draw):
    prot = draw(st.sampled_from(sorted(PROTOCOLS)))
    return {"prot": prot, "lay": draw(layout(pmax=8)), "rng": draw(gens.rng_spec(scripted=False)),
            "nself": draw(st.sampled_from([0, 0, 0, 1, 2])),
            "split": draw(st.sampled_from(["one_mating", "many_matings"]))}


def protocol_streams(prot, g):
    """(what, copy-indicator array) for each readable gamete stream of a progeny matrix g (2,N,p); founders 0..3 tagged"""
    tax = g.astype("int64") // 2
    par = g.astype("int64") % 2
    if prot == "Self":
        return [("Self phase0", par[0]), ("Self phase1", par[1])]
    if prot == "TwoWay":
        return [("TwoWay female gamete", par[0]), ("TwoWay male gamete", par[1])]
    if prot == "TwoWayDH":
        return [("TwoWayDH gamete of the F1", (tax[0] == 1).astype("int64"))]
    if prot == "ThreeWay":
        return [("ThreeWay recurrent gamete", par[0]), ("ThreeWay gamete of the F1", (tax[1] == 2).astype("int64"))]
    if prot == "ThreeWayDH":
        return [("ThreeWayDH gamete of the backcross", (tax[0] != 0).astype("int64"))]
    if prot == "FourWay":
        return [("FourWay gamete of F1(c2 x c3)", (tax[0] == 3).astype("int64")), ("FourWay gamete of F1(c0 x c1)", (tax[1] == 1).astype("int64"))]
    if prot == "FourWayDH":
        return [("FourWayDH gamete of the double hybrid", (tax[0] <= 1).astype("int64"))]
    raise AssertionError(prot)


def check_protocol(case, ctx):
    prot = case["prot"]
    cls, npar, isdh, has_mating = PROTOCOLS[prot]
    lay = case["lay"]
    N = N_GAMETES[_TIER["tier"]] // 2
    pg, xo, genpos, starts = realise_layout(lay, 4)
    decl = declared_xoprob(lay, starts)
    check_declared(ctx, xo, decl)
    common_labels(ctx, lay, decl, starts)
    ctx.label(prot)
    ctx.label("nself>0", case["nself"] > 0)
    rng = gens.build_rng(case["rng"])
    mp = cls(rng=rng)
    xconfig = numpy.array([[0, 1, 2, 3][:npar]], dtype="int64")
    if case["nself"] > 0:
        nm, npg = N, 1          # one progeny per mating: progeny are independent draws of the whole scheme
    elif has_mating and case["split"] == "many_matings":
        nm, npg = N // 4, 4
    elif has_mating:
        nm, npg = 1, N
    else:
        nm, npg = 1, N
    out = mp.mate(pg, xconfig, nm, npg, nself=case["nself"])
    g = out.mat
    if case["nself"] == 0:
        for what, S in protocol_streams(prot, g):
            # siblings of one mating share the intermediate hybrid: gametes are independent *given* it, so the
            # gamete-vs-gamete clause (f) is only meaningful for the streams whose source individual is a founder
            stream_tests(ctx, S, decl, lay, genpos, starts, what)
    else:
        # after selfing the copies are no longer readable; by symmetry every parental side still contributes each locus
        # with probability 1/2 when every chromosome start carries 0.5
        if all(decl[s] == 0.5 for s in starts) and prot in ("TwoWay", "TwoWayDH"):
            tax = g.astype("int64") // 2
            for j in range(lay["p"]):
                _binom(ctx, int((tax[0][:, j] == 1).sum()), tax.shape[1], 0.5, "b.segregation_half_after_selfing", "%s nself=%d marker %d" % (prot, case["nself"], j))


# ---- partly homozygous parents ---------------------------------------------------------------------------------
# Where the parent is homozygous the transmitted copy cannot be read, but crossovers there still decide which copy is
# transmitted further down the chromosome: between consecutive *heterozygous* markers i < k the copy changes with
# probability (1 - prod_{j=i+1..k} (1 - 2 x_j)) / 2 (independent crossovers), whatever lies between them.
@st.composite
def homozygous_case(draw):
    lay = draw(layout(pmax=12))
    p = lay["p"]
    hom = [draw(st.sampled_from([False, True, True])) for _ in range(p)]
    # at least two heterozygous markers, by construction
    idx = draw(st.lists(st.integers(0, p - 1), min_size=2, max_size=2, unique=True))
    for j in idx:
        hom[j] = False
    return {"lay": lay, "hom": hom, "homval": [draw(st.integers(0, 1)) for _ in range(p)],
            "target": draw(st.sampled_from(["mat_meiosis", "dense_meiosis", "TwoWay", "Self", "TwoWayDH"])),
            "rng": draw(gens.rng_spec(scripted=False))}


def check_homozygous(case, ctx):
    lay = case["lay"]
    p = lay["p"]
    N = N_GAMETES[_TIER["tier"]]
    pg, xo, genpos, starts = realise_layout(lay, 2)
    decl = declared_xoprob(lay, starts)
    check_declared(ctx, xo, decl)
    hom = case["hom"]
    het = [j for j in range(p) if not hom[j]]
    # parent 0: copy 0 carries 0 and copy 1 carries 1 at heterozygous markers; both carry the same allele elsewhere
    geno = numpy.zeros((2, 2, p), dtype="int8")
    for j in range(p):
        if hom[j]:
            geno[:, :, j] = case["homval"][j]
        else:
            geno[1, :, j] = 1
    ctx.label(case["target"])
    ctx.label("homozygous_marker_between_heterozygous_ones", any(hom[j] for j in range(het[0], het[-1])))
    ctx.label("first_marker_homozygous", hom[0])
    ctx.nontrivial(any(hom[j] for j in range(het[0], het[-1])) and any(0.0 < decl[j] < 0.5 for j in range(het[0] + 1, het[-1] + 1)))
    rng = gens.build_rng(case["rng"])
    t = case["target"]
    if t.endswith("meiosis"):
        fn = mate_util.mat_meiosis if t == "mat_meiosis" else core_mate.dense_meiosis
        streams = [(t, fn(geno, numpy.zeros(N, dtype="int64"), xo, rng).astype("int64"))]
    else:
        cls = PROTOCOLS[t][0]
        pg2 = DensePhasedGenotypeMatrix(mat=geno, vrnt_chrgrp=pg.vrnt_chrgrp, vrnt_phypos=pg.vrnt_phypos, vrnt_xoprob=xo)
        pg2.group_vrnt()
        xc = numpy.array([[0, 1][:PROTOCOLS[t][1]]], dtype="int64")
        out = cls(rng=rng).mate(pg2, xc, N // 2 if t == "TwoWayDH" else 1, 1 if t == "TwoWayDH" else N // 2, nself=0).mat.astype("int64")
        if t == "TwoWayDH":
            # both parents have the same genotype: the F1 is (gamete of 0, gamete of 1); a DH of it is not readable by
            # founder, so only the marginal clause applies here
            streams = [("TwoWayDH progeny", out[0])]
        else:
            streams = [(t + " phase0", out[0]), (t + " phase1", out[1])]
    for what, S in streams:
        n_obs = S.shape[0]
        if t != "TwoWayDH":
            for a, b in zip(het[:-1], het[1:]):
                prod = 1.0
                for j in range(a + 1, b + 1):
                    prod *= (1.0 - 2.0 * decl[j])
                r = 0.5 * (1.0 - prod)
                _binom(ctx, int((S[:, a] != S[:, b]).sum()), n_obs, r, "h.recombination_across_homozygous_markers",
                       "%s heterozygous markers %d,%d (homozygous between: %s)" % (what, a, b, [j for j in range(a + 1, b) if hom[j]]))
        if decl[0] == 0.5:
            for a in het:
                _binom(ctx, int(S[:, a].sum()), n_obs, 0.5, "h.segregation_half_at_heterozygous_marker", "%s marker %d" % (what, a))


# ---- one large call -------------------------------------------------------------------------------------------------
def large_cases(tier):
    return [{"kernel": k, "p": 2048, "n": 4500, "seed": s} for k, s in (("mat_meiosis", 3), ("dense_meiosis", 4))]


def check_large(case, ctx):
    """Gametes of one call are independent draws: with 2047 intervals at probability 0.1 the chance that two of 4500 gametes
    share their complete crossover pattern is below 1e-160, so all patterns must be distinct (a generator block that is
    reused inside one call repeats them)."""
    p, n = case["p"], case["n"]
    fn = mate_util.mat_meiosis if case["kernel"] == "mat_meiosis" else core_mate.dense_meiosis
    geno = gens.tagged_geno(1, p)
    xo = numpy.full(p, 0.1)
    xo[0] = 0.5
    out = fn(geno, numpy.zeros(n, dtype="int64"), xo, numpy.random.default_rng(case["seed"]))
    ctx.nontrivial(True)
    ctx.label(case["kernel"])
    pat = set(numpy.packbits(out.astype("uint8"), axis=1)[i].tobytes() for i in range(n))
    ctx.check(len(pat) == n, "f.gametes_of_one_large_call_repeat", lambda: "%d gametes, %d distinct crossover patterns" % (n, len(pat)))
    sw = (out[:, 1:] != out[:, :-1]).sum(0)
    z = (sw - n * 0.1) / math.sqrt(n * 0.1 * 0.9)
    _binom(ctx, int(sw.sum()), n * (p - 1), 0.1, "a.interval_frequency", "pooled over %d intervals" % (p - 1))


# ---- tiny crossover probabilities ----------------------------------------------------------------------------------------
def tiny_cases(tier):
    return [{"kernel": k, "rngkind": r, "seed": s} for (k, r, s) in
            (("mat_meiosis", "default_rng", 11), ("mat_meiosis", "RandomState", 12), ("dense_meiosis", "default_rng", 13))]


def check_tiny(case, ctx):
    """Intervals with a stored probability of 1e-30 (adjacent markers of a dense panel) essentially never recombine: over
    1.6e8 interval-meioses the expected number of crossovers is 1.6e-22, so a single one refutes the stored probability
    (a uniform source with only 2**-24 resolution realises every tiny probability as 6e-8 and yields about ten)."""
    fn = mate_util.mat_meiosis if case["kernel"] == "mat_meiosis" else core_mate.dense_meiosis
    p, n, ncall = 4096, 5000, 8
    geno = gens.tagged_geno(1, p)
    xo = numpy.full(p, 1e-30)
    xo[0] = 0.5
    rng = numpy.random.default_rng(case["seed"]) if case["rngkind"] == "default_rng" else numpy.random.RandomState(case["seed"])
    ctx.nontrivial(True)
    ctx.label(case["kernel"] + ":" + case["rngkind"])
    events, starts1, tot = 0, 0, 0
    for _ in range(ncall):
        out = fn(geno, numpy.zeros(n, dtype="int64"), xo, rng)
        events += int((out[:, 1:] != out[:, :-1]).sum())
        starts1 += int(out[:, 0].sum())
        tot += n
    _binom(ctx, events, tot * (p - 1), 1e-30, "a.interval_frequency_at_tiny_probability",
           "%s with %s: crossovers in %d interval-meioses at stored probability 1e-30" % (case["kernel"], case["rngkind"], tot * (p - 1)))
    _binom(ctx, starts1, tot, 0.5, "b.segregation_half", "%s start copy" % case["kernel"])


def _set_tier(tier):
    _TIER["tier"] = tier


class _TierAware(SubCheck):
    """sub-check whose per-case sample size depends on the tier (the tier is known through VERIF tier env in workers)"""


def _wrap(fn):
    import os

    def inner(case, ctx):
        t = os.environ.get("PBT_TIER")
        if t in N_GAMETES:
            _TIER["tier"] = t
        return fn(case, ctx)
    return inner


SUBCHECKS = [
    SubCheck("kernels", _wrap(check_kernel), kernel_case(), quick=20, thorough=40, shards_quick=8, shrink_s=8, max_rounds=2,
             rule="generated (meiosis/DH/cross kernel of both modules, 2..10 markers on 1..3 chromosomes, free crossover vectors with "
                  "forced exact 0 / 0.5 / adjacent heterogeneity or vectors derived by pybrops from a shuffled Standard map with "
                  "Haldane/Kosambi, both numpy generator classes); 20000 (quick) / 200000 (thorough) gametes per case; non-trivial = "
                  "some interval with 0 < p < 0.5"),
    SubCheck("protocols", _wrap(check_protocol), protocol_case(), quick=20, thorough=40, shards_quick=8, shrink_s=8, max_rounds=2,
             rule="generated (mating protocol, layout as above, nself 0/1/2, one mating vs many matings); 10000/100000 progeny per "
                  "case, every readable gamete stream tested; non-trivial as above"),
    SubCheck("homozygous", _wrap(check_homozygous), homozygous_case(), quick=10, thorough=30, shards_quick=8, shrink_s=8, max_rounds=2,
             rule="generated layout + a parent that is homozygous at a generated subset of markers (>= 2 heterozygous ones kept), meiosis "
                  "kernels and TwoWay/Self/TwoWayDH protocols; recombination between consecutive heterozygous markers against the "
                  "product formula over all intervening intervals, segregation 1/2; non-trivial = a homozygous marker between two "
                  "heterozygous ones with a crossover probability in (0, 0.5) on the way"),
    SubCheck("tiny_probabilities", check_tiny, cases=tiny_cases, shards_quick=3, shards_thorough=3,
             rule="finite: 8 calls x 5000 gametes x 4096 markers at stored probability 1e-30 (1.6e8 interval-meioses) per kernel and "
                  "generator class: no crossover may occur; start copy still 1/2"),
    SubCheck("large_call", check_large, cases=large_cases, shards_quick=2, shards_thorough=2,
             rule="finite: one call of each meiosis kernel for 4500 gametes x 2048 markers (more than 2**23 uniform draws): all "
                  "crossover patterns distinct, pooled interval frequency"),
]
