"""C09 — genotype summary statistics are exact and mutually consistent.

Oracle: integer / Fraction definitions evaluated on the raw allele calls in Python; boundary clauses exact.
"""
import math
import os
from fractions import Fraction

import numpy
from hypothesis import strategies as st

from pbt import compat  # noqa: F401
from pbt.core import SubCheck

from pybrops.popgen.gmat.DenseGenotypeMatrix import DenseGenotypeMatrix
from pybrops.popgen.gmat.DensePhasedGenotypeMatrix import DensePhasedGenotypeMatrix
from pybrops.breed.prot.gt.DenseUnphasedGenotyping import DenseUnphasedGenotyping

ASSUMPTIONS = [
    "allele calls are 0/1 per chromosome copy (phased) or dosages 0..ploidy (unphased): the coding the statistics are documented for",
    "integer output dtypes are only requested when they can represent the result (int8 counts of >127 copies are outside the domain)",
]

# sizes d = ploidy*n at which (1.0/d)*d != 1.0 in binary64 -- recomputed, not hard-coded
ROUNDING_D = [d for d in range(1, 1201) if (1.0 / d) * d != 1.0]


def rounding_n(ploidy, nmax=300):
    return [d // ploidy for d in ROUNDING_D if d % ploidy == 0 and d // ploidy <= nmax]


@st.composite
def case_strategy(draw):
    phased = draw(st.booleans())
    ploidy = draw(st.sampled_from([2, 2, 2, 1, 4]))
    rset = rounding_n(ploidy)
    n = draw(st.one_of(st.integers(1, 40), st.sampled_from(rset), st.integers(41, 130)))
    p = draw(st.integers(1, 30 if os.environ.get("PBT_TIER") == "thorough" else 8))
    cols = []
    for _ in range(p):
        kind = draw(st.sampled_from(["all0", "all1", "allmax", "random", "random", "half"]))
        nexc = draw(st.integers(0, 3)) if kind != "random" else draw(st.integers(0, min(3 * n, 40)))
        exc = [[draw(st.integers(0, n - 1)), draw(st.integers(0, ploidy - 1)), draw(st.integers(0, 1))]
               for _ in range(nexc)]
        cols.append({"kind": kind, "exc": exc})
    dtype = draw(st.sampled_from([None, None, "int64", "int32", "int16", "float64", "float32"]))
    # allele calls overwritten in place on the same object after the statistics have been queried once
    edits = draw(st.lists(st.tuples(st.integers(0, 10 ** 6), st.integers(0, 10 ** 6), st.integers(0, 10 ** 6), st.integers(0, 1),
                                    st.sampled_from(["mat", "setitem", "column"])).map(list), max_size=3))
    # how the matrix object holds its data: its own array, or a read-only view of an array the caller keeps (and later edits)
    storage = draw(st.sampled_from(["own", "own", "readonly_view", "readonly_thawed"]))
    # structural operations applied IN PLACE to the same object between two rounds of queries (phases, taxa or variants
    # appended / removed / incorporated): every statistic must describe the matrix as it is then, ploidy included
    struct = draw(st.lists(st.tuples(st.sampled_from(["append_phase", "remove_phase", "incorp_phase", "append_taxa",
                                                      "remove_taxa", "append_vrnt", "remove_vrnt"]),
                                     st.integers(0, 10 ** 6), st.integers(1, 2), st.integers(0, 2 ** 30)).map(list),
                           max_size=3)) if draw(st.integers(0, 2)) == 0 else []
    return {"phased": phased, "ploidy": ploidy, "n": n, "p": p, "cols": cols, "dtype": dtype, "edits": edits, "storage": storage,
            "struct": struct}


def build_calls(case):
    """allele calls as array (ploidy, n, p) of 0/1"""
    m, n, p = case["ploidy"], case["n"], case["p"]
    a = numpy.zeros((m, n, p), dtype="int8")
    for j, col in enumerate(case["cols"]):
        k = col["kind"]
        if k in ("all1", "allmax"):
            a[:, :, j] = 1
        elif k == "half":
            a[: (m + 1) // 2, :, j] = 1
        elif k == "random":
            # deterministic striped pattern, then exceptions drawn by Hypothesis
            a[:, ::2, j] = 1
            a[0, ::3, j] = 0
        for (i, ph, v) in col["exc"]:
            a[ph, i, j] = v
    return a


def _close(a, b, tol):
    return abs(a - b) <= tol


def check_stats(case, ctx):
    calls = build_calls(case)
    m, n, p = calls.shape
    dos = calls.sum(0).astype("int8")           # (n,p) dosage
    storage = case.get("storage", "own")
    base = calls.copy() if case["phased"] else dos.copy()       # the caller's own array
    held = base
    if storage in ("readonly_view", "readonly_thawed"):
        held = base.view()
        held.flags.writeable = False
    if case["phased"]:
        g = DensePhasedGenotypeMatrix(mat=held)
    else:
        g = DenseGenotypeMatrix(mat=held, ploidy=m)
    ctx.label("storage:" + storage)
    evaluate(case, ctx, g, calls)
    if case.get("struct") and storage == "own":
        calls, done = apply_structural(case, ctx, g, calls)
        if done:
            ctx.label("queried_again_after_in_place_structural_operation")
            ctx.label("queried_again_after_in_place_change_of_ploidy", calls.shape[0] != m)
            m, n, p = calls.shape
            evaluate(case, ctx, g, calls)
    edits = case.get("edits") or []
    if edits and storage != "own":
        # the matrix holds a read-only handle on memory that the caller still owns and now changes
        ctx.label("queried_again_after_external_edit_of_readonly_buffer")
        for (a, b, c, v, how) in edits:
            ph, i, j = a % m, b % n, c % p
            if how == "column":
                calls[:, :, j] = v
            else:
                calls[ph, i, j] = v
        newv = calls if case["phased"] else calls.sum(0).astype("int8")
        if storage == "readonly_thawed":
            g.mat.flags.writeable = True if g.mat.base is None else g.mat.flags.writeable
        base[...] = newv
        evaluate(case, ctx, g, calls)
        return
    if edits:
        # the same object, its allele calls overwritten in place: every statistic must describe the calls it holds NOW
        ctx.label("queried_again_after_in_place_edit")
        for (a, b, c, v, how) in edits:
            ph, i, j = a % m, b % n, c % p
            if how == "column":
                calls[:, :, j] = v
            else:
                calls[ph, i, j] = v
            if case["phased"]:
                if how == "setitem":
                    g[ph, i, j] = v
                elif how == "column":
                    g.mat[:, :, j] = v
                else:
                    g.mat[ph, i, j] = v
            else:
                newdos = calls.sum(0).astype("int8")
                if how == "setitem":
                    g[i, j] = newdos[i, j]
                elif how == "column":
                    g.mat[:, j] = newdos[:, j]
                else:
                    g.mat[i, j] = newdos[i, j]
        evaluate(case, ctx, g, calls)


def _bits(seed, shape, fill):
    """deterministic 0/1 block from the case: fill 0 -> zeros, 1 -> ones, else a hash pattern of the seed"""
    if fill in (0, 1):
        return numpy.full(shape, fill, dtype="int8")
    idx = numpy.arange(int(numpy.prod(shape)), dtype="uint64").reshape(shape)
    return (((idx * numpy.uint64(2654435761) + numpy.uint64(seed)) >> numpy.uint64(7)) & numpy.uint64(1)).astype("int8")


def apply_structural(case, ctx, g, calls):
    """apply the case's in-place structural operations to g and to the caller's model of the allele calls"""
    phased = case["phased"]
    done = 0
    for (op, raw, k, seed) in case.get("struct") or []:
        m, n, p = calls.shape
        fill = seed % 3
        if op.endswith("_phase"):
            if not phased:
                continue
            if op == "append_phase":
                new = _bits(seed, (k, n, p), fill)
                g.append_phase(new.copy())
                calls = numpy.concatenate([calls, new], axis=0)
            elif op == "incorp_phase":
                pos = raw % (m + 1)
                new = _bits(seed, (1, n, p), fill)
                g.incorp_phase(pos, new.copy())
                calls = numpy.insert(calls, pos, new[0], axis=0)
            else:
                if m < 2:
                    continue
                pos = raw % m
                g.remove_phase(pos)
                calls = numpy.delete(calls, pos, axis=0)
        elif op.endswith("_taxa"):
            if op == "append_taxa":
                new = _bits(seed, (m, k, p), fill)
                g.append_taxa(new.copy() if phased else new.sum(0).astype("int8"))
                calls = numpy.concatenate([calls, new], axis=1)
            else:
                if n < 2:
                    continue
                pos = raw % n
                g.remove_taxa(pos)
                calls = numpy.delete(calls, pos, axis=1)
        else:
            if op == "append_vrnt":
                new = _bits(seed, (m, n, k), fill)
                g.append_vrnt(new.copy() if phased else new.sum(0).astype("int8"))
                calls = numpy.concatenate([calls, new], axis=2)
            else:
                if p < 2:
                    continue
                pos = raw % p
                g.remove_vrnt(pos)
                calls = numpy.delete(calls, pos, axis=2)
        ctx.label("structural:" + op)
        done += 1
    return calls, done


def evaluate(case, ctx, g, calls):
    m, n, p = calls.shape
    d = m * n
    dos = calls.sum(0).astype("int8")           # (n,p) dosage
    snap = g.mat.copy()
    dt = case["dtype"]
    isint = dt is not None and dt.startswith("int")
    fdt = dt if (dt is not None and dt.startswith("float")) else None
    feps = 6e-8 if fdt == "float32" else 1.2e-16

    counts = [int(dos[:, j].sum()) for j in range(p)]
    fixed = [c == 0 or c == d for c in counts]
    ctx.label("n_in_rounding_set", d in ROUNDING_D)
    ctx.label("fixed_at_1_in_rounding_set", d in ROUNDING_D and any(c == d for c in counts))
    ctx.label("ploidy%d" % m)
    ctx.label("phased" if case["phased"] else "unphased")
    ctx.label("single_taxon", n == 1)
    ctx.nontrivial(any(fixed) and not all(fixed))

    # ---- acount / tacount ------------------------------------------------------------------------------
    ac = g.acount(dt if isint else None)
    ctx.check(ac.shape == (p,), "acount.shape", str(ac.shape))
    ctx.check([int(x) for x in ac] == counts, "acount.value", lambda: "%s vs %s" % (ac.tolist(), counts))
    if isint:
        ctx.check(ac.dtype == numpy.dtype(dt), "acount.dtype", str(ac.dtype))
    tc = g.tacount(dt if isint else None)
    ctx.check(tc.shape == (n, p) and (tc == dos).all(), "tacount.value")

    # ---- afreq ----------------------------------------------------------------------------------------------
    af = g.afreq(fdt)
    ctx.check(af.shape == (p,), "afreq.shape", str(af.shape))
    if fdt:
        ctx.check(af.dtype == numpy.dtype(fdt), "afreq.dtype", str(af.dtype))
    for j in range(p):
        x = float(af[j])
        ref = Fraction(counts[j], d)
        ctx.check(0.0 <= x <= 1.0, "afreq.range", "afreq=%r at count %d/%d" % (x, counts[j], d))
        ctx.check((x == 0.0) == (counts[j] == 0), "afreq.zero_iff_absent", "afreq=%r count=%d d=%d" % (x, counts[j], d))
        if fdt != "float32":
            ctx.check((x == 1.0) == (counts[j] == d), "afreq.one_iff_fixed", "afreq=%r count=%d d=%d" % (x, counts[j], d))
        ctx.check(_close(x, float(ref), 4 * feps), "afreq.value", "afreq=%r expected %r" % (x, float(ref)))

    # ---- tafreq ----------------------------------------------------------------------------------------------
    tf = g.tafreq(fdt)
    ctx.check(tf.shape == (n, p), "tafreq.shape", str(tf.shape))
    ok = True
    for i in range(n):
        for j in range(p):
            x = float(tf[i, j])
            c = int(dos[i, j])
            if not (0.0 <= x <= 1.0 and (x == 0.0) == (c == 0) and (x == 1.0) == (c == m)
                    and _close(x, c / m, 4 * feps)):
                ok = False
                ctx.check(False, "tafreq.value", "tafreq[%d,%d]=%r dosage=%d ploidy=%d" % (i, j, x, c, m))
    # ---- maf ---------------------------------------------------------------------------------------------------
    mf = g.maf(fdt)
    for j in range(p):
        ref = min(Fraction(counts[j], d), 1 - Fraction(counts[j], d))
        ctx.check(_close(float(mf[j]), float(ref), 4 * feps) and 0.0 <= float(mf[j]) <= 0.5, "maf.value",
                  "maf=%r expected %r" % (float(mf[j]), float(ref)))
        if fdt != "float32":
            ctx.check((float(mf[j]) == 0.0) == fixed[j], "maf.zero_iff_fixed", "maf=%r count=%d d=%d" % (float(mf[j]), counts[j], d))

    # ---- afixed / apoly ---------------------------------------------------------------------------------------
    fx = g.afixed()
    pl = g.apoly()
    ctx.check(fx.dtype == bool and pl.dtype == bool, "flags.dtype")
    ctx.check(fx.tolist() == fixed, "afixed.value", lambda: "afixed=%s expected %s counts=%s d=%d" % (fx.tolist(), fixed, counts, d))
    ctx.check(pl.tolist() == [not f for f in fixed], "apoly.value", lambda: "apoly=%s fixed=%s counts=%s d=%d" % (pl.tolist(), fixed, counts, d))
    ctx.check((fx == ~pl).all(), "afixed_is_complement_of_apoly", lambda: "afixed=%s apoly=%s" % (fx.tolist(), pl.tolist()))
    if dt is not None:
        fxd = g.afixed(dt)
        pld = g.apoly(dt)
        ctx.check(fxd.dtype == numpy.dtype(dt) and pld.dtype == numpy.dtype(dt), "flags.dtype_arg")
        ctx.check([bool(x) for x in fxd] == fixed and [bool(x) for x in pld] == [not f for f in fixed], "flags.dtype_value")

    # ---- meh ----------------------------------------------------------------------------------------------------
    mref = Fraction(m, p) * sum(Fraction(c, d) * (1 - Fraction(c, d)) for c in counts)
    mh = float(g.meh(fdt))
    ctx.check(_close(mh, float(mref), 16 * feps * max(1.0, p) * m), "meh.value", "meh=%r expected %r" % (mh, float(mref)))
    if all(fixed) and fdt != "float32":
        ctx.check(mh == 0.0, "meh.zero_when_all_fixed", "meh=%r" % mh)

    # ---- gtcount / gtfreq --------------------------------------------------------------------------------------
    gc = g.gtcount(dt if isint else None)
    gok = ctx.check(gc.shape == (m + 1, p), "gtcount.shape", "shape %s, expected (%d,%d) = (ploidy+1, nvrnt)" % (gc.shape, m + 1, p))
    for j in range(p if gok else 0):
        ref = [int((dos[:, j] == k).sum()) for k in range(m + 1)]
        ctx.check([int(x) for x in gc[:, j]] == ref, "gtcount.value", "col %d: %s expected %s" % (j, gc[:, j].tolist(), ref))
        ctx.check(int(gc[:, j].sum()) == n, "gtcount.colsum")
    gf = g.gtfreq(fdt)
    gok = ctx.check(gf.shape == (m + 1, p), "gtfreq.shape", str(gf.shape))
    for j in range(p if gok else 0):
        for k in range(m + 1):
            c = int((dos[:, j] == k).sum())
            x = float(gf[k, j])
            ctx.check(0.0 <= x <= 1.0 and _close(x, c / n, 4 * feps), "gtfreq.value", "gtfreq=%r expected %d/%d" % (x, c, n))
            ctx.check((x == 0.0) == (c == 0), "gtfreq.zero_iff_absent", "gtfreq=%r count=%d" % (x, c))

    # ---- alternative codings ----------------------------------------------------------------------------------
    f012 = g.mat_asformat("{0,1,2}")
    ctx.check(f012.shape == (n, p) and (f012 == dos).all(), "asformat.012")
    if m == 2:
        f101 = g.mat_asformat("{-1,0,1}")
        ctx.check((f101 == dos.astype(int) - 1).all(), "asformat.-101")
        fm = g.mat_asformat("{-1,m,1}")
        for j in range(p):
            het = dos[:, j] == 1
            ctx.check((fm[~het, j] == dos[~het, j].astype(float) - 1.0).all(), "asformat.-1m1.homozygotes")
            if het.any():
                vals = set(fm[het, j].tolist())
                ctx.check(len(vals) == 1 and -1.0 <= min(vals) and max(vals) <= 1.0, "asformat.-1m1.het_common_value", str(vals))
        try:
            g.mat_asformat("{0,1}")
            ctx.fail("asformat.unknown_format_accepted")
        except ValueError:
            pass

    # ---- input not modified ---------------------------------------------------------------------------------
    ctx.check((g.mat == snap).all() and g.mat.dtype == snap.dtype, "statistics_mutated_matrix")

    # ---- phased vs unphased projection ------------------------------------------------------------------------
    if case["phased"]:
        u = DenseUnphasedGenotyping().genotype(g)
        ctx.check(type(u) is DenseGenotypeMatrix and u.ploidy == m, "projection.type_or_ploidy")
        for name in ("acount", "tacount", "afreq", "tafreq", "maf", "afixed", "apoly", "gtcount", "gtfreq"):
            a, b = getattr(g, name)(), getattr(u, name)()
            same = a.shape == b.shape and a.dtype == b.dtype and ((a == b).all())
            if a.dtype.kind == "f" and not same and a.shape == b.shape:
                same = bool(numpy.all(numpy.abs(a - b) <= 4e-16))
            ctx.check(same, "projection.%s" % name, lambda: "phased %s vs unphased %s" % (a.tolist(), b.tolist()))
        ctx.check(_close(float(g.meh()), float(u.meh()), 1e-15 * max(1, p) * m), "projection.meh")


def huge_cases(tier):
    """population sizes at which an absolute or relative tolerance (1e-8 / 1e-5) would swallow a single chromosome copy"""
    out = []
    for phased in (False, True):
        for n in (50001, 60000):
            out.append({"phased": phased, "ploidy": 2, "n": n, "p": 4, "dtype": None, "edits": [],
                        "cols": [{"kind": "all1", "exc": [[7, 1, 0]]}, {"kind": "all0", "exc": [[n - 1, 0, 1]]},
                                 {"kind": "all1", "exc": []}, {"kind": "random", "exc": []}]})
    return out


SUBCHECKS = [
    SubCheck("stats", check_stats, case_strategy(), quick=700, thorough=6000, shards_quick=4,
             rule="generated (phased|unphased, ploidy 1/2/4, n incl. sizes where (1/d)*d!=1, column patterns with "
                  "forced all-0/all-1/one-copy-different loci, dtype); non-trivial = at least one fixed and one "
                  "polymorphic locus; distinct by sha1 of the case",
             required_labels=("n_in_rounding_set", "fixed_at_1_in_rounding_set", "single_taxon", "queried_again_after_in_place_edit")),
    SubCheck("huge", check_stats, cases=huge_cases, shards_quick=4, shards_thorough=4,
             rule="finite: 50001 / 60000 diploid taxa, phased and unphased, loci with exactly one chromosome copy different (a frequency "
                  "within 1e-5 of 0 or 1 that is nevertheless polymorphic), a fixed locus and a mixed locus"),
]
