"""C07 -- selection protocols turn criteria into valid, correct cross configurations.

Sub-checks
  cfg           the eight configuration classes of breed/prot/sel/cfg driven directly with generated decisions and an
                explicit generator: shape, membership, multiplicities, outcross local optimality, cross-map lookup
  select_trunc  EBV / GEBV subset selection with the exact sorting optimiser: truncation correctness against an
                independently computed criterion, permutation/relabelling equivariance, configuration validity
  select_ga     EBV (subset/real/integer/binary), GEBV, OCS (subset/real), OHV and UC mate selection, random selection
                with tiny GA budgets: configuration derived from the reported solution; multi-objective choice =
                argmax of the declared preference transformation over the returned front, and non-dominated

  mate_trunc    OHV / UC mate selection (cross = the candidate) with the exact sorting optimiser: the chosen crosses are
                the best candidate crosses by a criterion recomputed from its definition (OHV: ploidy x sum over blocks of
                the best block value among the parents' phases, one block per chromosome; UC with the two-way, three-way,
                four-way and dihybrid DH variance factories: expected progeny value (parents weighted by their share in the
                pedigree of the scheme) + i x s.d. of the DH progeny from the pedigree enumerator of pbt.oracles for the same
                scheme), permutation equivariance where the permuted population offers the same crosses, cross map, table
  mate_trunc_large   the same clauses on a few fixed large populations (candidate-cross counts on both sides of 1024,
                2048: the protocol evaluates crosses in blocks of 1024); most of them in the thorough tier

Histories: select_trunc, select_ga and mate_trunc drive ONE protocol object through up to three uses ("generations"):
between uses public attributes are reassigned through their setters (ncross, nparent, nmating, nprogeny, obj_wt,
unscale, unique_parents, nhaploblk, upper_percentile, UC cross scheme = vmatfcty + nparent, transformation kwargs, ndset_wt)
and the population is kept (same
objects), replaced by one of the same size, or by one of another size.  Every clause is checked after every use
against the settings and population in force at that use.

Oracles: counting / brute-force exchange scans / itertools cross maps / Python-loop criteria.  The protocol is
never called a second time as its own oracle (the second call in select_trunc is the metamorphic relabelled run).
"""
import contextlib
import itertools
import math
import os
import statistics
from collections import Counter

import numpy
from hypothesis import strategies as st

from pbt import compat  # noqa: F401
from pbt.core import SubCheck
from pbt.oracles import pedigree2 as P

from pybrops.popgen.gmat.DensePhasedGenotypeMatrix import DensePhasedGenotypeMatrix
from pybrops.popgen.gmat.DenseGenotypeMatrix import DenseGenotypeMatrix
from pybrops.popgen.bvmat.DenseBreedingValueMatrix import DenseBreedingValueMatrix
from pybrops.model.gmod.DenseAdditiveLinearGenomicModel import DenseAdditiveLinearGenomicModel
from pybrops.popgen.cmat.fcty.DenseMolecularCoancestryMatrixFactory import DenseMolecularCoancestryMatrixFactory
from pybrops.model.vmat.fcty.DenseTwoWayDHAdditiveGeneticVarianceMatrixFactory import DenseTwoWayDHAdditiveGeneticVarianceMatrixFactory
from pybrops.model.vmat.fcty.DenseThreeWayDHAdditiveGeneticVarianceMatrixFactory import DenseThreeWayDHAdditiveGeneticVarianceMatrixFactory
from pybrops.model.vmat.fcty.DenseFourWayDHAdditiveGeneticVarianceMatrixFactory import DenseFourWayDHAdditiveGeneticVarianceMatrixFactory
from pybrops.model.vmat.fcty.DenseDihybridDHAdditiveGeneticVarianceMatrixFactory import DenseDihybridDHAdditiveGeneticVarianceMatrixFactory
from pybrops.popgen.gmap.HaldaneMapFunction import HaldaneMapFunction
from pybrops.breed.prot.sel.cfg.SubsetSelectionConfiguration import SubsetSelectionConfiguration
from pybrops.breed.prot.sel.cfg.RealSelectionConfiguration import RealSelectionConfiguration
from pybrops.breed.prot.sel.cfg.IntegerSelectionConfiguration import IntegerSelectionConfiguration
from pybrops.breed.prot.sel.cfg.BinarySelectionConfiguration import BinarySelectionConfiguration
from pybrops.breed.prot.sel.cfg.SubsetMateSelectionConfiguration import SubsetMateSelectionConfiguration
from pybrops.breed.prot.sel.cfg.RealMateSelectionConfiguration import RealMateSelectionConfiguration
from pybrops.breed.prot.sel.cfg.IntegerMateSelectionConfiguration import IntegerMateSelectionConfiguration
from pybrops.breed.prot.sel.cfg.BinaryMateSelectionConfiguration import BinaryMateSelectionConfiguration
from pybrops.breed.prot.sel.EstimatedBreedingValueSelection import (
    EstimatedBreedingValueSubsetSelection, EstimatedBreedingValueRealSelection,
    EstimatedBreedingValueIntegerSelection, EstimatedBreedingValueBinarySelection)
from pybrops.breed.prot.sel.GenomicEstimatedBreedingValueSelection import GenomicEstimatedBreedingValueSubsetSelection
from pybrops.breed.prot.sel.OptimalContributionSelection import OptimalContributionSubsetSelection, OptimalContributionRealSelection
from pybrops.breed.prot.sel.OptimalHaploidValueSelection import OptimalHaploidValueSubsetSelection
from pybrops.breed.prot.sel.UsefulnessCriterionSelection import UsefulnessCriterionSubsetSelection
from pybrops.breed.prot.sel.RandomSelection import RandomSubsetSelection
from pybrops.breed.prot.sel.prob.trans import trans_sum as latent_sum, trans_dot as latent_dot
from pybrops.opt.algo.SortingSubsetOptimizationAlgorithm import SortingSubsetOptimizationAlgorithm
from pybrops.opt.algo.SubsetGeneticAlgorithm import SubsetGeneticAlgorithm
from pybrops.opt.algo.RealGeneticAlgorithm import RealGeneticAlgorithm
from pybrops.opt.algo.IntegerGeneticAlgorithm import IntegerGeneticAlgorithm
from pybrops.opt.algo.BinaryGeneticAlgorithm import BinaryGeneticAlgorithm
from pybrops.opt.algo.NSGA2SubsetGeneticAlgorithm import NSGA2SubsetGeneticAlgorithm
from pybrops.opt.algo.NSGA2RealGeneticAlgorithm import NSGA2RealGeneticAlgorithm
from pybrops.opt.algo.NSGA2IntegerGeneticAlgorithm import NSGA2IntegerGeneticAlgorithm
from pybrops.opt.algo.NSGA2BinaryGeneticAlgorithm import NSGA2BinaryGeneticAlgorithm

ASSUMPTIONS = [
    "self-pairings of a cross table = sum over rows of (entries - distinct entries), the quantity outcross_shuffle documents "
    "it minimises; local optimality = no exchange of two entries of the table lowers it (all pairs scanned)",
    "multiplicities: subset and binary decisions -> every chosen member used floor(T/k) or ceil(T/k) times; real "
    "contribution vectors -> |count_i - T*c_i/sum(c)| < 1 (+1e-9); integer count vectors -> the documented tiling law of "
    "tiled_choice: q*c_i <= count_i <= (q+1)*c_i with q = T div sum(c), exact (q*c_i) when sum(c) divides T",
    "populations handed to select() are aligned (pgmat, gmat, bvmat list the same taxa in the same order), as every "
    "caller in pybrops does; gmat is a distinct unphased object so that 'configuration carries the passed pgmat' is observable",
    "truncation criterion recomputed by the harness: EBV = (mat*scale+location if unscale else mat) combined with the "
    "declared latent weights and obj_wt; GEBV (unscale=True) = beta + dosage.u_a; ties are compared as value multisets "
    "with an ulp-scaled tolerance 64*eps*sum|terms|",
    "GA-backed protocols run with ngen 1-4, pop_size 4-12; pymoo seeds itself from OS entropy (C08 finding), the harness "
    "pins numpy.random.seed and default_rng(None) during select() as a replay aid only: every clause is a predicate over "
    "the returned configuration and miscout solution, and violation messages carry both",
    "select() builds the configuration with rng=None (C08 finding F-C08-c): cross tables of select() come from the global "
    "numpy stream, which the harness seeds from the case",
    "multi-objective choice: compared with the harness's own evaluation of the declared transformation on "
    "miscout['mosoln'].soln_obj; any maximiser is accepted when several rows tie; the bundled default transformation "
    "(distance to a vector after min-max scaling) is undefined (NaN) when an objective is constant over the front "
    "(C19 finding) -- those fronts are labelled and only the argmax clause is skipped for them",
    "mate selection with the sorting optimiser (mate_trunc): the candidates are the rows of the cross map; 'the best candidates "
    "by their criterion' = the ncross candidate crosses with the smallest declared single-cross objective obj_wt * trans(-value). "
    "OHV value of a cross from its definition: ploidy * sum over haplotype blocks of the largest block value (sum of allele * "
    "effect over the block's markers) among both phases of all parents of the cross; nhaploblk is set to the number of "
    "chromosomes, the one layout that is fixed by the documentation (every chromosome gets at least one block) -- finer "
    "layouts are the subject of C18.  UC value of a cross under the scheme of the variance factory the protocol was given "
    "(two-way, three-way, four-way, dihybrid; nparent = the scheme's): expected genomic value (intercept included) of the DH "
    "progeny + pdf(ppf(1-p))/p * their s.d.  The expected value weights each parent's genomic value by the share of the progeny "
    "genome descending from it in the scheme's pedigree, with the columns of the cross table read as the mating protocols read "
    "them: two-way / dihybrid (female, male) 1/2 each; three-way (recurrent, female, male) = recurrent x (female x male): 1/2, "
    "1/4, 1/4; four-way (female2, male2, female1, male1): 1/4 each -- computed by the harness from the pedigree (and cross-checked "
    "at import against the founder-origin enumeration of the mating protocols), never read from the library's variance matrix "
    "(vmat.epgc).  The variance comes from the pedigree enumerator of pbt.oracles.pedigree2 for the same scheme (the C12 oracle, "
    "written from the mating protocols); two-/three-/four-way populations consist of inbred lines, as those factories "
    "presuppose, dihybrid populations may be heterozygous.  For three-/four-way crosses the position of a parent in a candidate "
    "is its role in the pedigree, so a reordered population offers other candidate crosses: the truncation clause is checked "
    "on the passed and on the permuted population separately, each against its own candidates, and the chosen cross sets are "
    "compared only when both populations offer the same crosses (always for OHV, two-way, dihybrid).  Values are compared as intervals (OHV: 64*eps*2*sum|u|; UC: relative 1e-11 of "
    "4*(sum|u|)^2 on the variance, 1e-9 relative on the value): a violation needs a chosen cross whose lower bound exceeds "
    "the upper bound of an unchosen one, so ties and near-ties are never reported; the permuted run is compared by cross sets "
    "only when the best set is unambiguous under these intervals.  OCS has no exact optimiser bundled (its objective is not "
    "additive over members), so it has no truncation clause",
    "re-use of one protocol object: settings are reassigned through public setters only; after ncross changes, nmating and "
    "nprogeny are assigned again (their setters expand a scalar to the ncross in force at assignment time); for OHV nhaploblk "
    "is reassigned when the next population has a different number of chromosomes; a UC protocol is moved to another cross scheme by "
    "assigning vmatfcty and nparent.  'same' population = the very same "
    "genotype / breeding-value / model objects are passed again",
]

EPS = 2.220446049250313e-16


# =====================================================================================================================
# small reference pieces
# =====================================================================================================================
def selfpair_score(rows):
    return sum(len(r) - len(set(r)) for r in rows)


assert selfpair_score([[1, 1], [2, 3]]) == 1 and selfpair_score([[1, 1, 1], [2, 2, 3]]) == 3 and selfpair_score([[0, 1]]) == 0


def improving_exchange(table):
    """first exchange of two entries that lowers the self-pairing score, or None (brute force over all pairs)"""
    rows = [list(r) for r in table]
    base = selfpair_score(rows)
    pos = [(i, j) for i in range(len(rows)) for j in range(len(rows[i]))]
    for a in range(len(pos)):
        for b in range(a + 1, len(pos)):
            (i, j), (k, m) = pos[a], pos[b]
            if i == k or rows[i][j] == rows[k][m]:
                continue                    # within a row or equal values: score cannot change
            rows[i][j], rows[k][m] = rows[k][m], rows[i][j]
            s = selfpair_score(rows)
            rows[i][j], rows[k][m] = rows[k][m], rows[i][j]
            if s < base:
                return (i, j), (k, m), base, s
    return None


assert improving_exchange([[1, 1], [2, 2]]) is not None and improving_exchange([[1, 2], [1, 2]]) is None
assert improving_exchange([[1, 1], [1, 1]]) is None


def ref_xmap(ntaxa, nparent, unique):
    it = itertools.combinations(range(ntaxa), nparent) if unique else itertools.combinations_with_replacement(range(ntaxa), nparent)
    return [list(c) for c in it]


assert ref_xmap(3, 2, True) == [[0, 1], [0, 2], [1, 2]] and len(ref_xmap(3, 2, False)) == 6


def ref_vec_dist(points, obj_wt, vec_wt):
    """default preference transformation written from its documentation: weight, min-max scale to [0,1] per objective,
    distance of each point to the line through the origin with direction obj_wt.  NaN when a column is constant."""
    m = len(points[0])
    cols = [[p[j] * vec_wt[j] for p in points] for j in range(m)]
    scaled = []
    for c in cols:
        lo, hi = min(c), max(c)
        if hi - lo == 0.0 or not math.isfinite(hi - lo):
            scaled.append([float("nan")] * len(c))
        else:
            scaled.append([(v - lo) / (hi - lo) for v in c])
    vv = math.fsum(w * w for w in obj_wt)
    out = []
    for i in range(len(points)):
        x = [scaled[j][i] for j in range(m)]
        s = math.fsum(x[j] * obj_wt[j] for j in range(m)) / vv
        out.append(math.sqrt(math.fsum((x[j] - s * obj_wt[j]) ** 2 for j in range(m))))
    return out


_d = ref_vec_dist([[0.0, 1.0], [1.0, 0.0], [0.5, 0.5]], [1.0, 1.0], [1.0, 1.0])
assert abs(_d[0] - math.sqrt(0.5)) < 1e-12 and abs(_d[1] - math.sqrt(0.5)) < 1e-12 and abs(_d[2]) < 1e-12


def pareto_dominates(a, b):
    return all(x <= y for x, y in zip(a, b)) and any(x < y for x, y in zip(a, b))


@contextlib.contextmanager
def seeded_entropy(seed):
    orig = numpy.random.default_rng
    ss = numpy.random.SeedSequence(int(seed))

    def patched(s=None):
        if s is None:
            s = ss.spawn(1)[0]
        return orig(s)

    numpy.random.default_rng = patched
    numpy.random.seed(int(seed) % (2 ** 32))
    try:
        yield
    finally:
        numpy.random.default_rng = orig


def make_rng(r):
    if r["type"] == "RandomState":
        return numpy.random.RandomState(r["seed"])
    return numpy.random.default_rng(r["seed"])


# =====================================================================================================================
# configuration oracle (shared by all sub-checks)
# =====================================================================================================================
def _blank_pgmat(ntaxa):
    return DensePhasedGenotypeMatrix(mat=numpy.zeros((2, ntaxa, 1), dtype="int8"),
                                     taxa=numpy.array(["L%02d" % i for i in range(ntaxa)], dtype=object))


def check_header(ctx, cfg, pg, ncross, nparent, nmating, nprogeny, prefix):
    x = cfg.xconfig
    ctx.check(isinstance(x, numpy.ndarray) and x.shape == (ncross, nparent), prefix + ".xconfig_shape",
              lambda: "xconfig shape %s, expected (%d,%d)" % (getattr(x, "shape", None), ncross, nparent))
    ctx.check(x.dtype.kind in "iu", prefix + ".xconfig_dtype", lambda: str(x.dtype))
    ctx.check(bool(((x >= 0) & (x < pg.ntaxa)).all()), prefix + ".xconfig_not_a_taxon_index",
              lambda: "xconfig %s with ntaxa=%d" % (x.tolist(), pg.ntaxa))
    ctx.check(cfg.pgmat is pg, prefix + ".pgmat_is_not_the_passed_population")
    ctx.check(cfg.ncross == ncross and cfg.nparent == nparent, prefix + ".ncross_nparent")
    wantm = [nmating] * ncross if isinstance(nmating, int) else list(nmating)
    wantp = [nprogeny] * ncross if isinstance(nprogeny, int) else list(nprogeny)
    ctx.check(numpy.asarray(cfg.nmating).tolist() == wantm and numpy.asarray(cfg.nprogeny).tolist() == wantp, prefix + ".nmating_nprogeny",
              lambda: "nmating %s nprogeny %s" % (numpy.asarray(cfg.nmating).tolist(), numpy.asarray(cfg.nprogeny).tolist()))
    return [[int(e) for e in r] for r in x.tolist()]


def check_multiplicity(ctx, enc, decn, counts, total, prefix, where):
    """counts: Counter over option indices (taxa or crosses) used `total` times in all; decn: the decision"""
    msg = lambda: "%s: decision %s used as %s (T=%d)" % (where, list(decn), dict(sorted(counts.items())), total)     # noqa: E731
    if enc == "subset":
        chosen = [int(e) for e in decn]
        ctx.check(set(counts) <= set(chosen), prefix + ".entry_not_in_decision", msg)
        k = len(set(chosen))
        lo, hi = total // k, -(-total // k)
        ctx.check(all(lo <= counts.get(e, 0) <= hi for e in set(chosen)), prefix + ".subset_not_used_evenly", msg)
    elif enc == "binary":
        chosen = [i for i, v in enumerate(decn) if int(v) != 0]
        ctx.check(set(counts) <= set(chosen), prefix + ".entry_not_in_decision", msg)
        k = len(chosen)
        lo, hi = total // k, -(-total // k)
        ctx.check(all(lo <= counts.get(e, 0) <= hi for e in chosen), prefix + ".subset_not_used_evenly", msg)
    elif enc == "integer":
        c = [int(v) for v in decn]
        ctx.check(all(c[e] > 0 for e in counts), prefix + ".entry_not_in_decision", msg)
        q = total // sum(c)
        ctx.check(all(q * c[i] <= counts.get(i, 0) <= (q + 1) * c[i] for i in range(len(c))), prefix + ".integer_counts_break_tiling_law", msg)
        ctx.label("integer_decision_divides_table", total % sum(c) == 0)
        share = [total * ci / sum(c) for ci in c]
        ctx.label("integer_counts_further_than_one_from_share", any(abs(counts.get(i, 0) - share[i]) >= 1 + 1e-9 for i in range(len(c))))
    else:
        c = [float(v) for v in decn]
        ctx.check(all(c[e] > 0.0 for e in counts), prefix + ".entry_not_in_decision", msg)
        tot = math.fsum(c)
        ctx.check(all(abs(counts.get(i, 0) - total * c[i] / tot) < 1.0 + 1e-9 for i in range(len(c))), prefix + ".real_counts_not_within_one_of_share",
                  lambda: msg() + " shares %s" % [total * ci / tot for ci in c])


def check_table(ctx, enc, decn, rows, prefix):
    flat = [e for r in rows for e in r]
    check_multiplicity(ctx, enc, decn, Counter(flat), len(flat), prefix, "table %s" % rows)
    ex = improving_exchange(rows)
    ctx.label("table_has_unavoidable_selfing", selfpair_score(rows) > 0)
    ctx.check(ex is None, prefix + ".not_outcross_local_optimum",
              lambda: "table %s: exchanging %s and %s lowers self-pairings %d -> %d" % (rows, ex[0], ex[1], ex[2], ex[3]))


def check_mate_table(ctx, enc, decn, rows, xmap, prefix):
    xm = [list(int(e) for e in r) for r in numpy.asarray(xmap).tolist()]
    named = Counter()
    for r in rows:
        hits = [d for d in range(len(xm)) if xm[d] == r]
        ctx.check(len(hits) >= 1, prefix + ".row_not_in_cross_map", lambda: "row %s of %s is no row of the cross map" % (r, rows))
        if hits:
            named[hits[0]] += 1
    check_multiplicity(ctx, enc, decn, named, len(rows), prefix, "crosses %s" % rows)


# =====================================================================================================================
# sub-check cfg
# =====================================================================================================================
CFG = {
    "subset": (SubsetSelectionConfiguration, "subset", False), "real": (RealSelectionConfiguration, "real", False),
    "integer": (IntegerSelectionConfiguration, "integer", False), "binary": (BinarySelectionConfiguration, "binary", False),
    "submate": (SubsetMateSelectionConfiguration, "subset", True), "realmate": (RealMateSelectionConfiguration, "real", True),
    "intmate": (IntegerMateSelectionConfiguration, "integer", True), "binmate": (BinaryMateSelectionConfiguration, "binary", True),
}


@st.composite
def decision(draw, enc, nopt):
    if enc == "subset":
        k = draw(st.integers(1, nopt))
        return list(draw(st.permutations(list(range(nopt)))))[:k]
    if enc == "binary":
        v = draw(st.lists(st.integers(0, 1), min_size=nopt, max_size=nopt))
        v[draw(st.integers(0, nopt - 1))] = 1
        return v
    if enc == "integer":
        v = draw(st.lists(st.sampled_from([0, 0, 1, 1, 2, 3, 5]), min_size=nopt, max_size=nopt))
        if sum(v) == 0:
            v[draw(st.integers(0, nopt - 1))] = draw(st.integers(1, 3))
        return v
    v = draw(st.lists(st.sampled_from([0.0, 0.0, 1.0, 0.5, 0.25, 0.1, 2.0, 1e-3, 0.3333333333333333, 0.7]), min_size=nopt, max_size=nopt))
    if sum(v) == 0.0:
        v[draw(st.integers(0, nopt - 1))] = 1.0
    return v


@st.composite
def cfg_case(draw):
    cls = draw(st.sampled_from(sorted(CFG)))
    _, enc, mate = CFG[cls]
    ntaxa = draw(st.integers(2 if mate else 1, 8))
    ncross = draw(st.integers(1, 6))
    nparent = draw(st.integers(1, 4)) if not mate else draw(st.integers(1, min(3, ntaxa)))
    case = {"cls": cls, "ntaxa": ntaxa, "ncross": ncross, "nparent": nparent,
            "nmating": draw(st.one_of(st.integers(1, 3), st.lists(st.integers(1, 3), min_size=ncross, max_size=ncross))),
            "nprogeny": draw(st.one_of(st.integers(1, 9), st.lists(st.integers(1, 9), min_size=ncross, max_size=ncross))),
            "rng": {"type": draw(st.sampled_from(["RandomState", "Generator"])), "seed": draw(st.integers(0, 2 ** 31 - 1))},
            "resample": draw(st.integers(0, 2))}
    if mate:
        case["unique"] = draw(st.booleans())
        nopt = len(ref_xmap(ntaxa, nparent, case["unique"]))
    else:
        nopt = ntaxa
    case["decn"] = draw(decision(enc, nopt))
    case["bool_dtype"] = draw(st.booleans())
    return case


@st.composite
def cfg_dense_case(draw):
    """Configurations whose descent is long: 3-6 crosses of 3-4 parents from 2-4 chosen individuals with very uneven
    integer / real contributions, re-sampled several times (each sampling scans the exchanges in another random order)."""
    cls = draw(st.sampled_from(["integer", "integer", "real"]))
    ntaxa = draw(st.integers(2, 5))
    ncross = draw(st.integers(3, 6))
    nparent = draw(st.integers(3, 4))
    nch = draw(st.integers(2, min(4, ntaxa)))
    chosen = list(draw(st.permutations(list(range(ntaxa)))))[:nch]
    if cls == "integer":
        decn = [0] * ntaxa
        for i in chosen:
            decn[i] = draw(st.sampled_from([1, 1, 2, 3, 5, 8]))
    else:
        decn = [0.0] * ntaxa
        for i in chosen:
            decn[i] = draw(st.sampled_from([1.0, 1.0, 2.0, 0.5, 0.25, 3.0, 5.0, 8.0]))
    return {"cls": cls, "ntaxa": ntaxa, "ncross": ncross, "nparent": nparent, "nmating": 1, "nprogeny": draw(st.integers(1, 3)),
            "rng": {"type": draw(st.sampled_from(["RandomState", "Generator"])), "seed": draw(st.integers(0, 2 ** 31 - 1))},
            "resample": draw(st.integers(2, 5)), "decn": decn, "bool_dtype": False}


def _decn_array(enc, decn, bool_dtype=False):
    if enc == "real":
        return numpy.array(decn, dtype="float64")
    if enc == "binary" and bool_dtype:
        return numpy.array(decn, dtype=bool)
    return numpy.array(decn, dtype="int64")


def check_cfg(case, ctx):
    klass, enc, mate = CFG[case["cls"]]
    ntaxa, ncross, nparent = case["ntaxa"], case["ncross"], case["nparent"]
    pg = _blank_pgmat(ntaxa)
    decn = _decn_array(enc, case["decn"], case["bool_dtype"])
    keep = decn.copy()
    total = ncross if mate else ncross * nparent
    ctx.label("cls=" + case["cls"])
    ctx.label("rng=" + case["rng"]["type"])
    nchosen = len([v for v in case["decn"] if v]) if enc != "subset" else len(case["decn"])
    ctx.label("more_slots_than_chosen", total > nchosen)
    ctx.label("fewer_slots_than_chosen", total < nchosen)
    ctx.label("selfing_forced", (not mate) and nchosen < nparent)
    ctx.nontrivial(total >= 2 and nchosen >= 2)
    nm = case["nmating"] if isinstance(case["nmating"], int) else numpy.array(case["nmating"], dtype="int64")
    npg = case["nprogeny"] if isinstance(case["nprogeny"], int) else numpy.array(case["nprogeny"], dtype="int64")
    kw = dict(ncross=ncross, nparent=nparent, nmating=nm, nprogeny=npg, pgmat=pg, xconfig_decn=decn, rng=make_rng(case["rng"]))
    if mate:
        xmap = numpy.array(ref_xmap(ntaxa, nparent, case["unique"]), dtype="int64")
        kw["xconfig_xmap"] = xmap
    cfg = klass(**kw)
    for rnd in range(1 + case["resample"]):
        if rnd:
            out = cfg.sample_xconfig(return_xconfig=True)
            ctx.check(out is not None and numpy.array_equal(out, cfg.xconfig), "cfg.sample_xconfig_return_differs_from_attribute")
        rows = check_header(ctx, cfg, pg, ncross, nparent, case["nmating"], case["nprogeny"], "cfg")
        ctx.check(numpy.array_equal(cfg.xconfig_decn, keep) and cfg.xconfig_decn.dtype == keep.dtype, "cfg.decision_changed",
                  lambda: "xconfig_decn %s, constructed with %s" % (cfg.xconfig_decn.tolist(), keep.tolist()))
        if mate:
            check_mate_table(ctx, enc, case["decn"], rows, xmap, "cfg")
        else:
            check_table(ctx, enc, case["decn"], rows, "cfg")


# =====================================================================================================================
# populations for select()
# =====================================================================================================================
@st.composite
def population(draw, nmin, nmax=10, traits=(1, 2)):
    n = draw(st.integers(nmin, max(nmin, nmax)))
    p = draw(st.integers(2, 6))
    t = draw(st.sampled_from(list(traits)))
    mode = draw(st.sampled_from(["int", "int", "float"]))
    if mode == "int":
        bv = [float(v) for v in draw(st.lists(st.integers(-4, 4), min_size=n * t, max_size=n * t))]
    else:
        bv = draw(st.lists(st.floats(-5.0, 5.0, allow_nan=False, allow_infinity=False), min_size=n * t, max_size=n * t))
    return {"n": n, "p": p, "t": t,
            "hap": draw(st.lists(st.integers(0, 1), min_size=2 * n * p, max_size=2 * n * p)),
            "names": draw(st.lists(st.integers(0, 60), min_size=n, max_size=n, unique=True)),
            "grp": draw(st.lists(st.integers(1, 3), min_size=n, max_size=n)),
            "bv": bv, "loc": [draw(st.sampled_from([0.0, 1.5, -2.0])) for _ in range(t)],
            "scale": [draw(st.sampled_from([1.0, 2.0, 0.5])) for _ in range(t)],
            "u": [float(v) for v in draw(st.lists(st.integers(-3, 3), min_size=p * t, max_size=p * t))],
            "beta": [draw(st.sampled_from([0.0, 1.0, -2.5])) for _ in range(t)]}


def expand_pop(pop):
    """populations too large to be listed in a case are stored as sizes + generator seeds; expanded here to the listed form"""
    if "hapseed" not in pop:
        return pop
    n, p, t = pop["n"], pop["p"], pop["t"]
    rng = numpy.random.default_rng(int(pop["hapseed"]))
    h0 = rng.integers(0, 2, size=n * p)
    h1 = h0.copy() if pop.get("inbred") else rng.integers(0, 2, size=n * p)
    out = dict(pop)
    out["hap"] = [int(v) for v in h0] + [int(v) for v in h1]
    out["names"] = [int(v) for v in rng.permutation(2 * n)[:n]]
    out["grp"] = [int(v) for v in rng.integers(1, 4, size=n)]
    out["u"] = [float(v) for v in numpy.round(rng.normal(size=p * t) * 64.0) / 64.0]
    return out


def build_world(pop, order=None):
    n, p, t = pop["n"], pop["p"], pop["t"]
    order = list(range(n)) if order is None else list(order)
    hap = numpy.array(pop["hap"], dtype="int8").reshape(2, n, p)[:, order, :]
    names = numpy.array(["L%02d" % pop["names"][i] for i in order], dtype=object)
    grp = numpy.array([pop["grp"][i] for i in order], dtype="int64")
    if "runs" in pop:
        # explicit chromosome layout: run lengths + genetic positions (ascending within a chromosome)
        chrom = [c + 1 for c, rl in enumerate(pop["runs"]) for _ in range(rl)]
        genpos = [float(v) for v in pop["genpos"]]
        xo = [float(v) for v in P.xoprob_from_genpos(chrom, genpos)]
        pop = dict(pop)
        pop.setdefault("bv", [0.0] * (n * t))
        pop.setdefault("loc", [0.0] * t)
        pop.setdefault("scale", [1.0] * t)
    else:
        half = max(1, p // 2)
        chrom = [1] * half + [2] * (p - half)
        genpos = [0.1 * (j if j < half else j - half) for j in range(p)]
        xo = [0.5 if (j == 0 or j == half) else 0.5 * (1.0 - math.exp(-2.0 * 0.1)) for j in range(p)]
    meta = dict(taxa=names, taxa_grp=grp, vrnt_chrgrp=numpy.array(chrom, dtype="int64"),
                vrnt_phypos=numpy.arange(1, p + 1, dtype="int64") * 10, vrnt_genpos=numpy.array(genpos, dtype=float),
                vrnt_xoprob=numpy.array(xo, dtype=float))
    pg = DensePhasedGenotypeMatrix(mat=hap.copy(), **meta)
    pg.group_vrnt()
    gm = DenseGenotypeMatrix(mat=hap.sum(0).astype("int8"), ploidy=2, **meta)
    gm.group_vrnt()
    trait = numpy.array(["trait%d" % j for j in range(t)], dtype=object)
    bvm = numpy.array(pop["bv"], dtype=float).reshape(n, t)[order, :]
    bv = DenseBreedingValueMatrix(mat=bvm.copy(), location=numpy.array(pop["loc"], dtype=float), scale=numpy.array(pop["scale"], dtype=float),
                                  taxa=names.copy(), taxa_grp=grp.copy(), trait=trait)
    gp = DenseAdditiveLinearGenomicModel(beta=numpy.array([pop["beta"]], dtype=float), u_misc=None,
                                         u_a=numpy.array(pop["u"], dtype=float).reshape(p, t), trait=trait.copy())
    return {"pg": pg, "gm": gm, "bv": bv, "gp": gp, "names": [str(s) for s in names]}


def criterion_table(pop, source, unscale):
    """per original individual: list over traits of the value the protocol is declared to select on (harness arithmetic)"""
    n, p, t = pop["n"], pop["p"], pop["t"]
    if source == "ebv":
        out = []
        for i in range(n):
            row = []
            for j in range(t):
                v = pop["bv"][i * t + j]
                row.append(v * pop["scale"][j] + pop["loc"][j] if unscale else v)
            out.append(row)
        return out
    hap = pop["hap"]
    out = []
    for i in range(n):
        dos = [hap[(0 * n + i) * p + m] + hap[(1 * n + i) * p + m] for m in range(p)]
        out.append([pop["beta"][j] + math.fsum(dos[m] * pop["u"][m * t + j] for m in range(p)) for j in range(t)])
    return out


# =====================================================================================================================
# histories: one protocol object, several uses
# =====================================================================================================================
def _nm(v):
    return v if isinstance(v, int) else numpy.array(v, dtype="int64")


@st.composite
def next_population(draw, prev_pop, need, span, traits, make=None):
    """population of a later use of the same protocol object: the same one (same objects are passed again), a new one of
    the same size, or a new one of any admissible size.  Returns (mode, population)."""
    make = make or (lambda lo, hi: population(lo, hi, traits=traits))
    mode = draw(st.sampled_from(["same", "same_size", "same_size", "new"]))
    if prev_pop["n"] < need:
        mode = "new"
    if mode == "same":
        return mode, prev_pop
    if mode == "same_size":
        return mode, draw(make(prev_pop["n"], prev_pop["n"]))
    return mode, draw(make(need, need + span))


def reuse_labels(ctx, k, prev, cur, names):
    """classification of the step between two uses of one protocol object (measures what the history generator produces)"""
    ctx.label("reuse:use_%d" % min(k + 1, 3))
    changed = [a for a in names if prev.get(a) != cur.get(a)]
    for a in changed:
        ctx.label("reuse:changed_" + a)
    ctx.label("reuse:no_setting_changed", not changed)
    ctx.label("reuse:population_" + cur.get("pop_mode", "new"))
    ctx.label("reuse:same_ntaxa", prev["pop"]["n"] == cur["pop"]["n"])
    ctx.label("reuse:same_ntaxa_and_nparent_other_setting_changed",
              prev["pop"]["n"] == cur["pop"]["n"] and prev["nparent"] == cur["nparent"] and bool(changed))


# =====================================================================================================================
# sub-check select_trunc
# =====================================================================================================================
TRUNC_SETTINGS = ("ncross", "nparent", "nmating", "nprogeny", "unscale", "lwt", "obj_wt")


@st.composite
def trunc_params(draw, t, prev=None):
    ncross = draw(st.integers(1, 4))
    nparent = draw(st.integers(1, 3))
    s = {"ncross": ncross, "nparent": nparent, "nmating": draw(st.integers(1, 2)), "nprogeny": draw(st.integers(1, 6)),
         "unscale": draw(st.booleans()), "lwt": [draw(st.sampled_from([1.0, 2.0, 0.5, -1.0])) for _ in range(t)],
         "obj_wt": draw(st.sampled_from([1.0, 1.0, 1.0, -1.0, 2.0]))}
    if prev is not None:
        keep = draw(st.lists(st.booleans(), min_size=len(TRUNC_SETTINGS), max_size=len(TRUNC_SETTINGS)))
        for a, kp in zip(TRUNC_SETTINGS, keep):
            if kp:
                s[a] = prev[a]
            elif a == "unscale":
                s[a] = not prev[a]
    T = s["ncross"] * s["nparent"]
    if prev is None:
        s["pop"] = draw(population(T, T + 5, traits=(t,)))
    else:
        s["pop_mode"], s["pop"] = draw(next_population(prev["pop"], T, 5, (t,)))
    s["perm"] = prev["perm"] if s.get("pop_mode") == "same" else list(draw(st.permutations(list(range(s["pop"]["n"])))))
    return s


@st.composite
def trunc_case(draw):
    t = draw(st.sampled_from([1, 2]))
    first = draw(trunc_params(t))
    combine = "identity" if t == 1 else draw(st.sampled_from(["sum", "dot"]))
    case = dict(first)
    case.update({"source": draw(st.sampled_from(["ebv", "ebv", "gebv"])), "combine": combine, "seed": draw(st.integers(0, 2 ** 31 - 1))})
    later, prev = [], first
    for _ in range(draw(st.sampled_from([0, 0, 1, 1, 2]))):
        prev = draw(trunc_params(t, prev))
        later.append(prev)
    case["later"] = later
    return case


def _trunc_protocol(case):
    t = case["pop"]["t"]
    kw = dict(ntrait=t, unscale=case["unscale"] if case["source"] == "ebv" else True, ncross=case["ncross"], nparent=case["nparent"],
              nmating=case["nmating"], nprogeny=case["nprogeny"], nobj=1, obj_wt=case["obj_wt"],
              soalgo=SortingSubsetOptimizationAlgorithm())
    if case["combine"] == "sum":
        kw["obj_trans"] = latent_sum
    elif case["combine"] == "dot":
        kw["obj_trans"] = latent_dot
        kw["obj_trans_kwargs"] = {"latentvec_wt": numpy.array(case["lwt"], dtype=float)}
    klass = EstimatedBreedingValueSubsetSelection if case["source"] == "ebv" else GenomicEstimatedBreedingValueSubsetSelection
    return klass(**kw)


def _trunc_reassign(prot, case, prev, cur):
    """public setters only, and only for what differs from the previous use; nmating / nprogeny are given again after
    ncross (their setters size a scalar by the ncross in force)"""
    if cur["ncross"] != prev["ncross"]:
        prot.ncross = cur["ncross"]
    if cur["nparent"] != prev["nparent"]:
        prot.nparent = cur["nparent"]
    if cur["nmating"] != prev["nmating"] or cur["ncross"] != prev["ncross"]:
        prot.nmating = _nm(cur["nmating"])
    if cur["nprogeny"] != prev["nprogeny"] or cur["ncross"] != prev["ncross"]:
        prot.nprogeny = _nm(cur["nprogeny"])
    if cur["unscale"] != prev["unscale"] and case["source"] == "ebv":
        prot.unscale = cur["unscale"]
    if cur["lwt"] != prev["lwt"] and case["combine"] == "dot":
        prot.obj_trans_kwargs = {"latentvec_wt": numpy.array(cur["lwt"], dtype=float)}
    if cur["obj_wt"] != prev["obj_wt"]:
        prot.obj_wt = cur["obj_wt"]


def check_select_trunc(case, ctx):
    stages = [case] + list(case.get("later", []))
    ctx.label("source=" + case["source"])
    ctx.label("combine=" + case["combine"])
    prots, worlds = {}, {}
    for k, cur in enumerate(stages):
        flat = dict(case)
        flat.update(cur)
        if k:
            reuse_labels(ctx, k, stages[k - 1], cur, TRUNC_SETTINGS)
        _trunc_use(flat, ctx, k, stages[k - 1] if k else None, prots, worlds)


def _trunc_use(case, ctx, k, prev, prots, worlds):
    pop = case["pop"]
    n, t = pop["n"], pop["t"]
    T = case["ncross"] * case["nparent"]
    unscale = case["unscale"] if case["source"] == "ebv" else True
    tab = criterion_table(pop, case["source"], unscale)
    lw = case["lwt"] if case["combine"] == "dot" else [1.0] * t
    # single-member objective the protocol declares (minimised): obj_wt * sum_j lw_j * (-value_ij)
    crit = [case["obj_wt"] * math.fsum(lw[j] * (-tab[i][j]) for j in range(t)) for i in range(n)]
    mag = max(abs(case["obj_wt"]) * math.fsum(abs(lw[j] * tab[i][j]) for j in range(t)) for i in range(n))
    tol = 64 * EPS * max(mag, 1e-300) * max(1, pop["p"])
    srt = sorted(crit)
    ctx.label("unscale", unscale)
    ctx.label("tie_at_truncation_point", T < n and abs(srt[T - 1] - srt[T]) <= tol)
    ctx.label("selects_everyone", T == n)
    ctx.label("negative_obj_wt", case["obj_wt"] < 0)
    ctx.nontrivial(T >= 2 and n > T and len(set(crit)) >= 3)
    use = "" if k == 0 else " (use %d of the same protocol object)" % (k + 1)

    chosen_names = []
    for tag, order in (("passed", list(range(n))), ("permuted", case["perm"])):
        if k and case.get("pop_mode") == "same":
            w = worlds[tag]
        else:
            w = worlds[tag] = build_world(pop, order)
        if k == 0:
            prot = prots[tag] = _trunc_protocol(case)
        else:
            prot = prots[tag]
            _trunc_reassign(prot, case, prev, case)
        misc = {}
        numpy.random.seed((case["seed"] + k) % (2 ** 32))
        cfg = prot.select(pgmat=w["pg"], gmat=w["gm"], ptdf=None, bvmat=w["bv"], gpmod=w["gp"], t_cur=k, t_max=5, miscout=misc)
        ctx.check(isinstance(cfg, SubsetSelectionConfiguration), "select.configuration_type", lambda: type(cfg).__name__)
        rows = check_header(ctx, cfg, w["pg"], case["ncross"], case["nparent"], case["nmating"], case["nprogeny"], "select")
        decn = [int(e) for e in cfg.xconfig_decn.tolist()]
        ctx.check("sosoln" in misc and numpy.array_equal(misc["sosoln"].soln_decn[0], cfg.xconfig_decn), "select.decision_is_not_the_reported_solution",
                  lambda: "xconfig_decn %s, sosoln %s" % (decn, misc.get("sosoln") and misc["sosoln"].soln_decn.tolist()))
        ctx.check(len(decn) == T and len(set(decn)) == T and all(0 <= e < n for e in decn), "select.decision_not_a_subset_of_the_population",
                  lambda: "decision %s, T=%d, ntaxa=%d%s" % (decn, T, n, use))
        check_table(ctx, "subset", decn, rows, "select")
        # truncation: chosen original individuals are the T smallest single-member objectives
        orig = [order[e] for e in decn]
        inside = max(crit[i] for i in orig)
        outside = [crit[i] for i in range(n) if i not in set(orig)]
        ctx.check(not outside or inside <= min(outside) + tol, "trunc.chosen_are_not_the_best_by_criterion",
                  lambda: "%s population%s: chose individuals %s (objective values %s) while unchosen %s has %r; all values %s" % (
                      tag, use, orig, [crit[i] for i in orig], [i for i in range(n) if i not in set(orig) and crit[i] < inside - tol][:3],
                      min(outside), crit))
        # reported objective equals the harness value for the chosen set (mean over the chosen, weights applied)
        want = math.fsum(crit[i] for i in orig) / T
        got = float(misc["sosoln"].soln_obj[0][0])
        ctx.check(abs(got - want) <= 8 * tol, "trunc.reported_objective_differs_from_criterion",
                  lambda: "reported %r, harness %r for individuals %s%s" % (got, want, orig, use))
        chosen_names.append(sorted(w["names"][e] for e in decn))
        if tag == "passed":
            vals0 = sorted(crit[i] for i in orig)
        else:
            vals1 = sorted(crit[i] for i in orig)
    gaps_clear = all(abs(srt[i + 1] - srt[i]) > 4 * tol for i in range(n - 1))
    ctx.label("all_criterion_values_distinct", gaps_clear)
    ctx.check(all(abs(a - b) <= tol for a, b in zip(vals0, vals1)), "trunc.permutation_changes_selected_values",
              lambda: "selected objective values %s vs %s after permuting the population by %s%s" % (vals0, vals1, case["perm"], use))
    if gaps_clear:
        ctx.check(chosen_names[0] == chosen_names[1], "trunc.permutation_changes_selected_individuals",
                  lambda: "selected %s, after permuting the population %s%s" % (chosen_names[0], chosen_names[1], use))


# =====================================================================================================================
# sub-check select_ga
# =====================================================================================================================
PROTOCOLS = ["ebv_subset", "ebv_real", "ebv_integer", "ebv_binary", "gebv_subset", "ocs_subset", "ocs_real", "ohv_mate", "uc_mate",
             "random_subset"]
ENC = {"ebv_subset": "subset", "ebv_real": "real", "ebv_integer": "integer", "ebv_binary": "binary", "gebv_subset": "subset",
       "ocs_subset": "subset", "ocs_real": "real", "ohv_mate": "subset", "uc_mate": "subset", "random_subset": "subset"}


def _pref_sum(mat, pw=None, p0=0.0, **kwargs):
    """harness-declared preference: weighted sum of the (minimised) objectives, about the origin p0"""
    return numpy.array([math.fsum(float(v) * w for v, w in zip(row, pw)) + p0 for row in numpy.asarray(mat)], dtype=float)


GA_SETTINGS = ("ncross", "nparent", "nmating", "nprogeny", "unscale", "obj_wt", "ndset_wt", "pw", "p0", "unique", "upct")


@st.composite
def ga_params(draw, proto, t, nobj, prev=None):
    """design and settings of one use of a protocol object (prev = those of the previous use of the same object)"""
    mate = proto in ("ohv_mate", "uc_mate")
    ncross = draw(st.integers(1, 4))
    nparent = 2 if proto == "uc_mate" else draw(st.integers(1, 3))
    s = {"ncross": ncross, "nparent": nparent, "nprogeny": draw(st.integers(1, 6)), "unscale": draw(st.booleans()),
         "obj_wt": [draw(st.sampled_from([1.0, 1.0, -1.0, 2.0])) for _ in range(nobj)],
         "ndset_wt": draw(st.sampled_from([1.0, 1.0, -1.0, 2.5])),
         "pw": [draw(st.sampled_from([1.0, 0.5, 2.0, -1.0, 0.0])) for _ in range(nobj)]}
    # the declared preference in other units and about another origin (weighted sum * 2^k + p0): the scores of a front then
    # differ by far less than their magnitude (or are all tiny) while their order is unchanged
    pu = 2.0 ** draw(st.sampled_from([0, 0, 0, -40, -60, 30]))
    s["pw"] = [w * pu for w in s["pw"]]
    s["p0"] = pu * draw(st.sampled_from([0.0, 0.0, 0.0, 2.0 ** 12, -2.0 ** 20, 2.0 ** 24, 2.0 ** 30, -2.0 ** 36]))
    if mate:
        s["unique"] = draw(st.booleans()) if (proto == "ohv_mate" or prev is not None) else True
        s["upct"] = 0.1 if prev is None else draw(st.sampled_from([0.1, 0.3, 0.02]))
    if prev is not None:
        names = [a for a in GA_SETTINGS if a in s]
        keep = draw(st.lists(st.booleans(), min_size=len(names), max_size=len(names)))
        for a, kp in zip(names, keep):
            if kp:
                s[a] = prev[a]
            elif a in ("unscale", "unique"):
                s[a] = not prev[a]
    ncross = s["ncross"]
    s["nmating"] = draw(st.one_of(st.integers(1, 2), st.lists(st.integers(1, 3), min_size=ncross, max_size=ncross)))
    if prev is not None and draw(st.booleans()) and (isinstance(prev["nmating"], int) or len(prev["nmating"]) == ncross):
        s["nmating"] = prev["nmating"]
    T = s["ncross"] * s["nparent"]
    need = max(T, s["nparent"] + 1, 3)
    if prev is None:
        s["pop"] = draw(population(need, need + 4, traits=(t,)))
    else:
        s["pop_mode"], s["pop"] = draw(next_population(prev["pop"], need, 4, (t,)))
    return s


@st.composite
def ga_case(draw):
    proto = draw(st.sampled_from(PROTOCOLS + ["ebv_subset", "ebv_real", "ohv_mate", "uc_mate"]))
    mate = proto in ("ohv_mate", "uc_mate")
    t = draw(st.sampled_from([1, 2, 2, 2]))
    if proto in ("ocs_subset", "ocs_real"):
        nobj = draw(st.sampled_from([1 + t, 1 + t, 1]))
    elif proto == "random_subset":
        nobj = t
    else:
        nobj = draw(st.sampled_from([1, t, t])) if t > 1 else 1
    first = draw(ga_params(proto, t, nobj))
    case = dict(first)
    case.update({"proto": proto, "nobj": nobj,
                 "ngen": draw(st.integers(1, 4)), "popsize": draw(st.integers(4, 12)), "seed": draw(st.integers(0, 2 ** 31 - 1)),
                 "pref": draw(st.sampled_from(["default", "default", "sum", "sum"]))})
    if mate:
        case["nhaploblk"] = 2          # one block per chromosome of the generated map (fewer is a documented ValueError)
    later, prev = [], first
    for _ in range(draw(st.sampled_from([0, 0, 1, 1, 2]))):
        prev = draw(ga_params(proto, t, nobj, prev))
        later.append(prev)
    case["later"] = later
    return case


def _ga_protocol(case):
    proto, pop = case["proto"], case["pop"]
    t, nobj = pop["t"], case["nobj"]
    enc = ENC[proto]
    g = dict(ngen=case["ngen"], pop_size=case["popsize"])
    so, mo = {"subset": (SubsetGeneticAlgorithm, NSGA2SubsetGeneticAlgorithm), "real": (RealGeneticAlgorithm, NSGA2RealGeneticAlgorithm),
              "integer": (IntegerGeneticAlgorithm, NSGA2IntegerGeneticAlgorithm), "binary": (BinaryGeneticAlgorithm, NSGA2BinaryGeneticAlgorithm)}[enc]
    kw = dict(ncross=case["ncross"], nparent=case["nparent"],
              nmating=case["nmating"] if isinstance(case["nmating"], int) else numpy.array(case["nmating"], dtype="int64"),
              nprogeny=case["nprogeny"], nobj=nobj, obj_wt=numpy.array(case["obj_wt"], dtype=float), soalgo=so(**g), moalgo=mo(**g),
              ndset_wt=case["ndset_wt"])
    # latent dimension -> nobj
    nlatent = {"ocs_subset": 1 + t, "ocs_real": 1 + t}.get(proto, t)
    if nobj == 1 and nlatent > 1:
        kw["obj_trans"] = latent_sum
    if nobj > 1 and case["pref"] == "sum":
        kw["ndset_trans"] = _pref_sum
        kw["ndset_trans_kwargs"] = {"pw": list(case["pw"]), "p0": case.get("p0", 0.0)}
    if proto.startswith("ebv"):
        klass = {"subset": EstimatedBreedingValueSubsetSelection, "real": EstimatedBreedingValueRealSelection,
                 "integer": EstimatedBreedingValueIntegerSelection, "binary": EstimatedBreedingValueBinarySelection}[enc]
        return klass(ntrait=t, unscale=case["unscale"], **kw)
    if proto == "gebv_subset":
        return GenomicEstimatedBreedingValueSubsetSelection(ntrait=t, unscale=True, **kw)
    if proto in ("ocs_subset", "ocs_real"):
        klass = OptimalContributionSubsetSelection if proto == "ocs_subset" else OptimalContributionRealSelection
        return klass(ntrait=t, cmatfcty=DenseMolecularCoancestryMatrixFactory(), unscale=case["unscale"], **kw)
    if proto == "ohv_mate":
        return OptimalHaploidValueSubsetSelection(ntrait=t, nhaploblk=case["nhaploblk"], unique_parents=case["unique"], **kw)
    if proto == "uc_mate":
        return UsefulnessCriterionSubsetSelection(ntrait=t, nself=0, upper_percentile=case.get("upct", 0.1),
                                                  vmatfcty=DenseTwoWayDHAdditiveGeneticVarianceMatrixFactory(),
                                                  gmapfn=HaldaneMapFunction(), unique_parents=case.get("unique", True), **kw)
    return RandomSubsetSelection(ntrait=t, **kw)


def check_mate_config(ctx, soln, rows, dl, n, nparent, unique, evidence):
    """mate-selection encodings: the decision names rows of the cross map, which lists every candidate cross of the
    population under the unique_parents setting in force; the table consists of exactly the named crosses"""
    xmap = soln.decn_space_xmap
    want = ref_xmap(n, nparent, unique)
    got = [list(int(e) for e in r) for r in numpy.asarray(xmap).tolist()]
    ctx.check(sorted(map(tuple, got)) == sorted(map(tuple, want)) and len(set(map(tuple, got))) == len(got), "select.cross_map_is_not_all_combinations",
              lambda: "cross map %s for ntaxa=%d nparent=%d unique_parents=%s" % (got, n, nparent, unique))
    ctx.check(all(len(set(r)) == len(r) for r in rows) or not unique, "select.self_cross_with_unique_parents", evidence)
    ctx.check(all(0 <= int(e) < len(got) for e in dl), "select.decision_names_no_row_of_the_cross_map", evidence)
    if not all(0 <= int(e) < len(got) for e in dl):
        return got
    for r, d in zip(sorted(rows), sorted(got[int(e)] for e in dl)):
        ctx.check(r == d, "select.crosses_differ_from_those_named_by_decision",
                  lambda: "decision %s names crosses %s, table is %s" % (dl, [got[int(e)] for e in dl], rows))
    check_mate_table(ctx, "subset", [int(e) for e in dl], rows, xmap, "select")
    return got


def _ga_reassign(prot, case, prev, cur):
    """public setters only, and only for what differs from the previous use; nmating / nprogeny are given again after
    ncross (their setters size a scalar by the ncross in force)"""
    proto = case["proto"]
    if cur["ncross"] != prev["ncross"]:
        prot.ncross = cur["ncross"]
    if cur["nparent"] != prev["nparent"]:
        prot.nparent = cur["nparent"]
    if cur["nmating"] != prev["nmating"] or cur["ncross"] != prev["ncross"]:
        prot.nmating = _nm(cur["nmating"])
    if cur["nprogeny"] != prev["nprogeny"] or cur["ncross"] != prev["ncross"]:
        prot.nprogeny = _nm(cur["nprogeny"])
    if cur["unscale"] != prev["unscale"] and (proto.startswith("ebv") or proto.startswith("ocs")):
        prot.unscale = cur["unscale"]
    if cur["obj_wt"] != prev["obj_wt"]:
        prot.obj_wt = numpy.array(cur["obj_wt"], dtype=float)
    if cur["ndset_wt"] != prev["ndset_wt"]:
        prot.ndset_wt = cur["ndset_wt"]
    if (cur["pw"] != prev["pw"] or cur.get("p0", 0.0) != prev.get("p0", 0.0)) and case["nobj"] > 1 and case["pref"] == "sum":
        prot.ndset_trans_kwargs = {"pw": list(cur["pw"]), "p0": cur.get("p0", 0.0)}
    if proto in ("ohv_mate", "uc_mate") and cur["unique"] != prev["unique"]:
        prot.unique_parents = cur["unique"]
    if proto == "uc_mate" and cur["upct"] != prev["upct"]:
        prot.upper_percentile = cur["upct"]


def check_select_ga(case, ctx):
    stages = [case] + list(case.get("later", []))
    ctx.label("proto=" + case["proto"])
    ctx.label("multiobjective" if case["nobj"] > 1 else "singleobjective")
    state = {}
    for k, cur in enumerate(stages):
        flat = dict(case)
        flat.update(cur)
        if k:
            prev = dict(case)
            prev.update(stages[k - 1])
            prev.setdefault("upct", 0.1)
            flat.setdefault("upct", 0.1)
            reuse_labels(ctx, k, prev, flat, [a for a in GA_SETTINGS if a in flat])
            if flat.get("pop_mode") != "same":
                state["w"] = build_world(flat["pop"])
            _ga_reassign(state["prot"], flat, prev, flat)
        else:
            state["w"] = build_world(flat["pop"])
            state["prot"] = _ga_protocol(flat)
        if not _ga_use(flat, ctx, k, state["prot"], state["w"]):
            return


def _ga_use(case, ctx, k, prot, w):
    """one use of the protocol object; False when the use ended in the (known / cleanly rejected) empty selection"""
    proto, pop = case["proto"], case["pop"]
    enc = ENC[proto]
    mate = proto in ("ohv_mate", "uc_mate")
    n, nobj = pop["n"], case["nobj"]
    ctx.nontrivial(case["ncross"] * case["nparent"] >= 2 and n >= 3)
    misc = {}
    try:
        with seeded_entropy(case["seed"] + k):
            cfg = prot.select(pgmat=w["pg"], gmat=w["gm"], ptdf=None, bvmat=w["bv"], gpmod=w["gp"], t_cur=k, t_max=5, miscout=misc)
    except ValueError as e:
        # F-C07-a: the unconstrained binary / integer problems score the all-zero decision ("select nobody") as 0, which
        # beats every real selection when the criterion values are unfavourable; select() then cannot build a table
        soln = misc.get("sosoln") if nobj == 1 else misc.get("mosoln")
        empty = soln is not None and any(not numpy.asarray(r).any() for r in numpy.asarray(soln.soln_decn))
        if enc in ("binary", "integer") and empty and "selects no individuals" in str(e):
            ctx.label("clean_rejection_of_empty_selection")     # the repaired behaviour proposed in F-C07-a: a named, documented error
            return False
        if enc in ("binary", "integer") and empty and "could not broadcast input array from shape (0,)" in str(e):
            ctx.label("optimiser_selected_nobody")
            if not ctx.known("F-C07-a", enc in ("binary", "integer")):
                ctx.fail("select.crash_when_solution_selects_nobody", "%s.select raised ValueError: %s; solution decn %s obj %s" % (
                    type(prot).__name__, e, numpy.asarray(soln.soln_decn).tolist(), numpy.asarray(soln.soln_obj).tolist()))
            return False
        raise
    rows = check_header(ctx, cfg, w["pg"], case["ncross"], case["nparent"], case["nmating"], case["nprogeny"], "select")
    soln = misc.get("sosoln") if nobj == 1 else misc.get("mosoln")
    ctx.check(soln is not None and soln.nsoln >= 1, "select.no_solution_in_miscout", lambda: str(sorted(misc)))
    decn = cfg.xconfig_decn
    evidence = lambda: "use %d of the protocol object: xconfig %s, xconfig_decn %s, solution decn %s obj %s" % (      # noqa: E731
        k + 1, rows, decn.tolist(), numpy.asarray(soln.soln_decn).tolist(), numpy.asarray(soln.soln_obj).tolist())
    match = [i for i in range(soln.nsoln) if numpy.array_equal(numpy.asarray(soln.soln_decn[i]), decn)]
    ctx.check(len(match) >= 1, "select.decision_is_not_a_reported_solution", evidence)
    if nobj == 1:
        ctx.check(match[0] == 0, "select.decision_is_not_the_reported_solution", evidence)
    else:
        F = [[float(v) for v in r] for r in numpy.asarray(soln.soln_obj).tolist()]
        ctx.label("front_size>=2", len(F) >= 2)
        ctx.label("front_size>=3", len(F) >= 3)
        if case["pref"] == "sum":
            ref = [case["ndset_wt"] * (math.fsum(v * pw for v, pw in zip(r, case["pw"])) + case.get("p0", 0.0)) for r in F]
        else:
            ref = [case["ndset_wt"] * d for d in ref_vec_dist(F, [1.0] * nobj, [1.0] * nobj)]
        ctx.label("pref=" + case["pref"])
        nan = any(math.isnan(v) for v in ref)
        ctx.label("preference_score_nan", nan)
        if nan and len(F) >= 2:
            ctx.label("preference_score_nan_with_front>=2")
        if not nan:
            best = max(ref)
            if case["pref"] == "sum":
                # rounding of a weighted sum about p0: relative to the magnitude of its terms (no absolute floor: units may be 2^-60)
                mag = abs(case["ndset_wt"]) * (max(math.fsum(abs(v * pw) for v, pw in zip(r, case["pw"])) for r in F) + abs(case.get("p0", 0.0)))
                ctx.label("pref=sum:origin_far_from_scores", abs(case.get("p0", 0.0)) > 1024.0 * (max(ref) - min(ref)) and len(F) >= 2)
                ctx.label("pref=sum:tiny_units", 0.0 < mag < 1e-8)
            else:
                mag = max(1.0, max(abs(v) for v in ref))
            tolp = 64 * EPS * mag * nobj
            # a strictly worse point that a scale-unaware closeness test (1e-8 + 1e-5 |max|) would call tied, listed before the maximiser
            ctx.label("worse_point_within_1e-5_of_best_listed_earlier", any(
                ref[i] < best - tolp and best - ref[i] <= 1e-8 + 1e-5 * abs(best) for i in range(ref.index(best))))
            ctx.label("preference_has_unique_maximiser", sum(1 for v in ref if v >= best - tolp) == 1)
            ctx.check(any(ref[i] >= best - tolp for i in match), "select.choice_is_not_argmax_of_declared_preference",
                      lambda: "chosen front row(s) %s score %s; maximum %r at row %d; scores %s; %s" % (
                          match, [ref[i] for i in match], best, ref.index(best), ref, evidence()))
        for i in match[:1]:
            for j in range(len(F)):
                ctx.check(not pareto_dominates(F[j], F[i]), "select.choice_is_dominated", lambda: "row %d dominated by row %d; %s" % (i, j, evidence()))
    # configuration against the decision
    dl = decn.tolist()
    if mate:
        check_mate_config(ctx, soln, rows, dl, n, case["nparent"], case["unique"], evidence)
    else:
        if enc == "subset":
            ctx.check(len(set(dl)) == len(dl), "select.decision_repeats_a_member", evidence)
        check_table(ctx, enc, dl, rows, "select")
    return True


# =====================================================================================================================
# sub-check mate_trunc: the candidates are crosses; exact optimiser => the best crosses by the criterion's definition
# =====================================================================================================================
MATE_SETTINGS = ("ncross", "nparent", "nmating", "nprogeny", "unique", "lwt", "obj_wt", "upct", "scheme")

# cross schemes of the usefulness criterion: the DH variance factory handed to the protocol, the number of parents of one
# cross and the pedigree of the cross in the column order of the cross table (the order the mating protocols read it in:
# two-way / dihybrid (female, male); three-way (recurrent, female, male) = recurrent x (female x male);
# four-way (female2, male2, female1, male1) = (female1 x male1) x (female2 x male2))
UC_FACTORY = {"two": DenseTwoWayDHAdditiveGeneticVarianceMatrixFactory, "three": DenseThreeWayDHAdditiveGeneticVarianceMatrixFactory,
              "four": DenseFourWayDHAdditiveGeneticVarianceMatrixFactory, "dihybrid": DenseDihybridDHAdditiveGeneticVarianceMatrixFactory}
UC_PEDIGREE = {"two": (0, 1), "three": (0, (1, 2)), "four": ((2, 3), (0, 1)), "dihybrid": (0, 1)}
UC_NPARENT = {"two": 2, "three": 3, "four": 4, "dihybrid": 2}


def pedigree_share(scheme):
    """expected share of the progeny genome that descends from each column of the cross table, read off the pedigree:
    every mating passes on one half of either side (selfing and doubling of haploids leave expectations unchanged)"""
    out = [0.0] * UC_NPARENT[scheme]

    def walk(node, w):
        if isinstance(node, int):
            out[node] += w
        else:
            for side in node:
                walk(side, 0.5 * w)

    walk(UC_PEDIGREE[scheme], 1.0)
    return out


assert pedigree_share("two") == [0.5, 0.5] and pedigree_share("three") == [0.5, 0.25, 0.25] and pedigree_share("four") == [0.25] * 4
# the same numbers from the enumeration of the mating protocols (founder-haplotype origin of a DH gamete)
for _s in UC_PEDIGREE:
    _m = [float(v) for v in P.origin_marginal(_s)]
    _m = [_m[0] + _m[1], _m[2] + _m[3]] if _s == "dihybrid" else _m
    assert all(abs(a - b) < 1e-15 for a, b in zip(_m, pedigree_share(_s))) and len(_m) == UC_NPARENT[_s], (_s, _m)


def cross_key(proto, scheme, c):
    """a candidate cross (columns of the cross table, as original individuals) up to the exchanges that leave the cross the
    same cross: OHV, two-way, dihybrid: any order; three-way: the two parents of the F1; four-way: the parents within either
    F1 and the two F1s"""
    c = tuple(c)
    if proto == "uc" and scheme == "three":
        return (c[0],) + tuple(sorted(c[1:]))
    if proto == "uc" and scheme == "four":
        a, b = sorted([tuple(sorted(c[:2])), tuple(sorted(c[2:]))])
        return a + b
    return tuple(sorted(c))


assert cross_key("uc", "three", (2, 5, 1)) == (2, 1, 5) and cross_key("uc", "four", (4, 3, 1, 2)) == (1, 2, 3, 4)
assert cross_key("uc", "four", (4, 1, 3, 2)) == (1, 4, 2, 3) and cross_key("ohv", None, (2, 0, 1)) == (0, 1, 2)


def ncandidates(n, nparent, unique):
    return math.comb(n, nparent) if unique else math.comb(n + nparent - 1, nparent)


assert ncandidates(46, 2, True) == 1035 and ncandidates(45, 2, False) == 1035 and ncandidates(3, 2, False) == len(ref_xmap(3, 2, False))


@st.composite
def mate_population(draw, nmin, nmax, t, inbred):
    """phased population on 1-3 chromosomes of 1-3 markers with explicit genetic positions; additive effects"""
    n = draw(st.integers(nmin, max(nmin, nmax)))
    runs = draw(st.lists(st.integers(1, 3), min_size=1, max_size=3))
    p = sum(runs)
    genpos = []
    for rl in runs:
        pos = draw(st.sampled_from([0.0, 0.25]))
        for k in range(rl):
            if k:
                pos = pos + draw(st.sampled_from([0.01, 0.1, 0.3, 1.0]))
            genpos.append(pos)
    h0 = draw(st.lists(st.integers(0, 1), min_size=n * p, max_size=n * p))
    h1 = list(h0) if inbred else draw(st.lists(st.integers(0, 1), min_size=n * p, max_size=n * p))
    if draw(st.sampled_from(["int", "int", "float"])) == "int":
        u = [float(v) for v in draw(st.lists(st.integers(-3, 3), min_size=p * t, max_size=p * t))]
    else:
        u = draw(st.lists(st.floats(-3.0, 3.0, allow_nan=False, allow_infinity=False), min_size=p * t, max_size=p * t))
    return {"n": n, "p": p, "t": t, "runs": runs, "genpos": genpos, "hap": h0 + h1,
            "names": draw(st.lists(st.integers(0, 60), min_size=n, max_size=n, unique=True)),
            "grp": draw(st.lists(st.integers(1, 3), min_size=n, max_size=n)), "u": u,
            "beta": [draw(st.sampled_from([0.0, 1.0, -2.5])) for _ in range(t)]}


@st.composite
def mate_params(draw, proto, t, prev=None, het=False):
    # the two-/three-/four-way DH variance factories describe crosses of inbred lines; the dihybrid factory takes
    # heterozygous parents (het: the whole history stays dihybrid on heterozygous populations)
    inbred = proto == "uc" and not het
    make = lambda lo, hi: mate_population(lo, hi, t, inbred)      # noqa: E731
    s = {"nparent": draw(st.integers(1, 3)), "unique": draw(st.booleans()),
         "nmating": draw(st.integers(1, 2)), "nprogeny": draw(st.integers(1, 6)),
         "lwt": [draw(st.sampled_from([1.0, 2.0, 0.5, -1.0])) for _ in range(t)],
         "obj_wt": draw(st.sampled_from([1.0, 1.0, 1.0, -1.0, 2.0])), "upct": draw(st.sampled_from([0.1, 0.1, 0.3, 0.02, 0.5]))}
    if proto == "uc":
        s["scheme"] = "dihybrid" if het else draw(st.sampled_from(["two", "three", "three", "four", "four", "dihybrid"]))
    if prev is not None:
        names = [a for a in MATE_SETTINGS if a != "ncross" and a in s]
        keep = draw(st.lists(st.booleans(), min_size=len(names), max_size=len(names)))
        for a, kp in zip(names, keep):
            if kp:
                s[a] = prev[a]
            elif a == "unique":
                s[a] = not prev[a]
    if proto == "uc":
        s["nparent"] = UC_NPARENT[s["scheme"]]      # the number of parents of a cross is the scheme's
    need = max(3, s["nparent"])
    if prev is None:
        s["pop"] = draw(make(need, 7 if s["nparent"] >= 4 else 9))
    else:
        s["pop_mode"], s["pop"] = draw(next_population(prev["pop"], need, 3 if s["nparent"] >= 4 else 6, (t,), make=make))
    n = s["pop"]["n"]
    ncand = ncandidates(n, s["nparent"], s["unique"])
    s["ncross"] = draw(st.integers(1, min(6, ncand)))
    if prev is not None and prev["ncross"] <= ncand and draw(st.booleans()):
        s["ncross"] = prev["ncross"]
    s["perm"] = prev["perm"] if s.get("pop_mode") == "same" else list(draw(st.permutations(list(range(n)))))
    return s


@st.composite
def mate_trunc_case(draw):
    proto = draw(st.sampled_from(["ohv", "uc"]))
    t = draw(st.sampled_from([1, 1, 2]))
    het = proto == "uc" and draw(st.sampled_from([False, False, False, True]))
    first = draw(mate_params(proto, t, het=het))
    case = dict(first)
    case.update({"proto": proto, "t": t, "combine": "identity" if t == 1 else draw(st.sampled_from(["sum", "dot"])),
                 "seed": draw(st.integers(0, 2 ** 31 - 1))})
    later, prev = [], first
    for _ in range(draw(st.sampled_from([0, 1, 1, 2]))):
        prev = draw(mate_params(proto, t, prev, het=het))
        later.append(prev)
    case["later"] = later
    return case


def _large_pop(n, runs, t, inbred, seed):
    genpos = []
    for rl in runs:
        genpos.extend(0.05 * k for k in range(rl))
    return {"n": n, "p": sum(runs), "t": t, "runs": list(runs), "genpos": genpos, "hapseed": seed, "inbred": inbred, "beta": [0.5] * t}


def mate_trunc_large_cases(tier):
    """fixed sizes: candidate-cross counts just below / above 1024 and 2048 for every way of getting there (two-way with
    and without self-crosses, three-way, four-way; OHV and the UC cross schemes), each as a two-use history on one
    protocol object with a new population of the same size.  The data seeds follow VERIF_SEED."""
    base = int(os.environ.get("VERIF_SEED", "1")) * 1000
    quick = [("ohv", 46, 2, True), ("ohv", 45, 2, False), ("ohv", 20, 3, True), ("ohv", 66, 2, True), ("ohv", 12, 4, False),
             ("ohv", 49, 2, True), ("uc", 46, 2, True), ("uc", 20, 3, True, "three")]
    more = [("ohv", 45, 2, True), ("ohv", 44, 2, False), ("ohv", 19, 3, True), ("ohv", 11, 4, False), ("ohv", 47, 2, True),
            ("ohv", 64, 2, True), ("ohv", 65, 2, True), ("ohv", 24, 3, True), ("ohv", 18, 3, False), ("ohv", 14, 4, True),
            ("ohv", 72, 2, False), ("ohv", 1030, 1, True), ("uc", 45, 2, False), ("uc", 50, 2, True),
            ("uc", 19, 3, True, "three"), ("uc", 18, 3, False, "three"), ("uc", 12, 4, False, "four"), ("uc", 14, 4, True, "four"),
            ("uc", 46, 2, True, "dihybrid")]
    sizes = quick if tier != "thorough" else quick + more + quick + more
    out = []
    for j, (proto, n, nparent, unique, *scheme) in enumerate(sizes):
        scheme = (scheme or ["two"])[0] if proto == "uc" else None
        inbred = proto == "uc" and scheme != "dihybrid"
        t = 1 + j % 2
        runs = [3, 2, 4, 3] if proto == "ohv" else [3, 2]
        sd = base + 10 * j
        ncand = ncandidates(n, nparent, unique)
        first = {"pop": _large_pop(n, runs, t, inbred, sd), "nparent": nparent, "unique": unique, "nmating": 1, "nprogeny": 2,
                 "lwt": [1.0, 0.5][:t], "obj_wt": 1.0, "upct": 0.1, "ncross": min(ncand // 2, 12 + 9 * (j % 4)),
                 "perm": [int(v) for v in numpy.random.default_rng(sd + 1).permutation(n)]}
        if scheme:
            first["scheme"] = scheme
        second = dict(first)
        second.update({"pop": _large_pop(n, runs[::-1], t, inbred, sd + 2), "pop_mode": "same_size", "ncross": min(ncand // 2, 30 + j),
                       "perm": [int(v) for v in numpy.random.default_rng(sd + 3).permutation(n)]})
        case = dict(first)
        case.update({"proto": proto, "t": t, "combine": "identity" if t == 1 else "dot", "seed": sd, "later": [second]})
        out.append(case)
    return out


def _mate_protocol(case):
    t = case["t"]
    kw = dict(ntrait=t, unique_parents=case["unique"], ncross=case["ncross"], nparent=case["nparent"], nmating=case["nmating"],
              nprogeny=case["nprogeny"], nobj=1, obj_wt=case["obj_wt"], soalgo=SortingSubsetOptimizationAlgorithm())
    if case["combine"] == "sum":
        kw["obj_trans"] = latent_sum
    elif case["combine"] == "dot":
        kw["obj_trans"] = latent_dot
        kw["obj_trans_kwargs"] = {"latentvec_wt": numpy.array(case["lwt"], dtype=float)}
    if case["proto"] == "ohv":
        return OptimalHaploidValueSubsetSelection(nhaploblk=len(case["pop"]["runs"]), **kw)      # one block per chromosome
    return UsefulnessCriterionSubsetSelection(nself=0, upper_percentile=case["upct"], vmatfcty=UC_FACTORY[case.get("scheme", "two")](),
                                              gmapfn=HaldaneMapFunction(), **kw)


def _mate_reassign(prot, case, prev, cur):
    """public setters only, and only for what differs from the previous use (see _trunc_reassign); the number of
    haplotype blocks follows the number of chromosomes of the population in use"""
    if cur["ncross"] != prev["ncross"]:
        prot.ncross = cur["ncross"]
    if cur["nparent"] != prev["nparent"]:
        prot.nparent = cur["nparent"]
    if cur["nmating"] != prev["nmating"] or cur["ncross"] != prev["ncross"]:
        prot.nmating = cur["nmating"]
    if cur["nprogeny"] != prev["nprogeny"] or cur["ncross"] != prev["ncross"]:
        prot.nprogeny = cur["nprogeny"]
    if cur["unique"] != prev["unique"]:
        prot.unique_parents = cur["unique"]
    if cur["lwt"] != prev["lwt"] and case["combine"] == "dot":
        prot.obj_trans_kwargs = {"latentvec_wt": numpy.array(cur["lwt"], dtype=float)}
    if cur["obj_wt"] != prev["obj_wt"]:
        prot.obj_wt = cur["obj_wt"]
    if case["proto"] == "uc" and cur["upct"] != prev["upct"]:
        prot.upper_percentile = cur["upct"]
    if case["proto"] == "uc" and cur.get("scheme", "two") != prev.get("scheme", "two"):
        prot.vmatfcty = UC_FACTORY[cur.get("scheme", "two")]()       # another cross scheme: its variance factory (nparent follows above)
    if case["proto"] == "ohv" and len(cur["pop"]["runs"]) != len(prev["pop"]["runs"]):
        prot.nhaploblk = len(cur["pop"]["runs"])


def ohv_bounds(pop, crosses):
    """per candidate cross and trait (lo, hi) of the optimal haploid value from its definition: ploidy x sum over
    haplotype blocks (here: chromosomes) of the best block value among the phases of the cross's parents"""
    n, p, t = pop["n"], pop["p"], pop["t"]
    hap, u = pop["hap"], pop["u"]
    bounds = [0]
    for rl in pop["runs"]:
        bounds.append(bounds[-1] + rl)
    blk = [[[[math.fsum(hap[(ph * n + i) * p + m] * u[m * t + j] for m in range(bounds[b], bounds[b + 1])) for j in range(t)]
             for b in range(len(pop["runs"]))] for i in range(n)] for ph in range(2)]
    tol = [64 * EPS * 2 * math.fsum(abs(u[m * t + j]) for m in range(p)) + 1e-300 for j in range(t)]
    out = []
    for c in crosses:
        row = []
        for j in range(t):
            v = 2 * math.fsum(max(blk[ph][i][b][j] for ph in range(2) for i in c) for b in range(len(pop["runs"])))
            row.append((v - tol[j], v + tol[j]))
        out.append(row)
    return out


_o = ohv_bounds({"n": 2, "p": 3, "t": 1, "runs": [2, 1], "hap": [1, 0, 0, 0, 1, 1] + [0, 0, 1, 1, 1, 0], "u": [1.0, 2.0, -1.0]}, [(0,), (1,), (0, 1)])
assert [round(0.5 * (lo + hi), 9) for ((lo, hi),) in _o] == [2.0, 6.0, 6.0], _o


def uc_bounds(pop, scheme, crosses, upct):
    """per candidate cross (columns of the cross table in the order the scheme's mating protocol reads them) and trait
    (lo, hi) of the usefulness criterion from its definition: expected genomic value of the doubled-haploid progeny of the
    cross + selection intensity x their s.d.  Expected value: every parent's genomic value weighted by the share of the
    progeny genome that descends from it in the scheme's pedigree (pedigree_share: two-way / dihybrid 1/2, 1/2;
    three-way recurrent 1/2, F1 parents 1/4 each; four-way 1/4 each) -- never read from the library's variance matrix;
    variance: the exact variance of the DH progeny of that pedigree (enumerator of pbt.oracles.pedigree2 for the same
    scheme, Haldane map, no selfing)"""
    share = pedigree_share(scheme)
    n, p, t = pop["n"], pop["p"], pop["t"]
    hap = numpy.array(pop["hap"], dtype=float).reshape(2, n, p)
    u = numpy.array(pop["u"], dtype=float).reshape(p, t)
    chrom = [c for c, rl in enumerate(pop["runs"]) for _ in range(rl)]
    rmat = P.rmat_from_genpos(chrom, pop["genpos"])
    nd = statistics.NormalDist()
    inten = nd.pdf(nd.inv_cdf(1.0 - upct)) / upct
    gv = [[pop["beta"][j] + math.fsum((hap[0, i, m] + hap[1, i, m]) * u[m, j] for m in range(p)) for j in range(t)] for i in range(n)]
    S = [4.0 * float(numpy.abs(u[:, j]).sum()) ** 2 for j in range(t)]
    out = []
    for c in crosses:
        var = numpy.diag(P.progeny_cov(scheme, P.scheme_slots(scheme, hap, tuple(c)), u, rmat, 0))
        row = []
        for j in range(t):
            pm = math.fsum(share[q] * gv[c[q]][j] for q in range(len(share)))
            tv = 1e-11 * S[j] + 1e-300
            v = max(float(var[j]), 0.0)
            slack = 1e-9 * (abs(pm) + inten * math.sqrt(v) + math.sqrt(S[j]) + abs(pop["beta"][j]))
            row.append((pm + inten * math.sqrt(max(v - tv, 0.0)) - slack, pm + inten * math.sqrt(v + tv) + slack))
        out.append(row)
    return out


def check_mate_trunc(case, ctx):
    stages = [case] + list(case.get("later", []))
    ctx.label("proto=" + case["proto"])
    ctx.label("combine=" + case["combine"])
    prots, worlds = {}, {}
    for k, cur in enumerate(stages):
        flat = dict(case)
        flat.update(cur)
        if k:
            reuse_labels(ctx, k, stages[k - 1], cur, MATE_SETTINGS)
        _mate_use(flat, ctx, k, stages[k - 1] if k else None, prots, worlds)


def _mate_use(case, ctx, k, prev, prots, worlds):
    proto, t = case["proto"], case["t"]
    scheme = case.get("scheme", "two") if proto == "uc" else None
    pop = expand_pop(case["pop"])
    n, nparent, unique, T = pop["n"], case["nparent"], case["unique"], case["ncross"]
    lw = case["lwt"] if case["combine"] == "dot" else [1.0] * t
    ncand = ncandidates(n, nparent, unique)
    memo = {}

    def objective(keys):
        """single-cross objective the protocol declares (minimised): obj_wt * sum_j lw_j * (-value_cj), as an interval"""
        todo = [c for c in keys if c not in memo]
        if todo:
            bnd = ohv_bounds(pop, todo) if proto == "ohv" else uc_bounds(pop, scheme, todo, case["upct"])
            for c, row in zip(todo, bnd):
                ends = [sorted((-case["obj_wt"] * lw[j] * row[j][0], -case["obj_wt"] * lw[j] * row[j][1])) for j in range(t)]
                memo[c] = (math.fsum(e[0] for e in ends), math.fsum(e[1] for e in ends))
        return [memo[c][0] for c in keys], [memo[c][1] for c in keys]

    ctx.label("unique_parents", unique)
    ctx.label("self_crosses_are_candidates", not unique and nparent >= 2)
    ctx.label("nparent=%d" % nparent)
    if scheme:
        ctx.label("scheme=" + scheme)
        ctx.label("heterozygous_parents", any(pop["hap"][i] != pop["hap"][n * pop["p"] + i] for i in range(n * pop["p"])))
    ctx.label("candidates>1024", ncand > 1024)
    ctx.label("candidates>2048", ncand > 2048)
    ctx.label("negative_obj_wt", case["obj_wt"] < 0)
    use = "" if k == 0 else " (use %d of the same protocol object)" % (k + 1)
    chosen, candset, clear = {}, {}, {}
    for tag, order in (("passed", list(range(n))), ("permuted", case["perm"])):
        # the candidates of this run: every combination of positions of the population as passed, read as a cross of the
        # individuals standing there (for three-/four-way crosses the position in the combination is the role in the pedigree,
        # so a reordered population has other candidates)
        cand = [cross_key(proto, scheme, [order[e] for e in c]) for c in ref_xmap(n, nparent, unique)]
        lo, hi = objective(cand)
        index = {c: i for i, c in enumerate(cand)}
        by_hi, by_lo = sorted(hi), sorted(lo)
        boundary_clear = T < len(cand) and by_hi[T - 1] < by_lo[T]      # the set of the T best candidates is unambiguous
        candset[tag], clear[tag] = set(cand), boundary_clear
        if tag == "passed":
            distinct = len(set(round(v, 9) for v in lo))
            ctx.label("tie_at_truncation_point", T < len(cand) and not boundary_clear)
            ctx.label("best_set_unambiguous", boundary_clear)
            if scheme:
                ctx.label("scheme=%s:best_set_unambiguous" % scheme, boundary_clear)
            ctx.nontrivial(T < len(cand) and distinct >= 3)
        if k and case.get("pop_mode") == "same":
            w = worlds[tag]
        else:
            w = worlds[tag] = build_world(pop, order)
        if k == 0:
            prot = prots[tag] = _mate_protocol(case)
        else:
            prot = prots[tag]
            _mate_reassign(prot, case, prev, case)
        misc = {}
        numpy.random.seed((case["seed"] + k) % (2 ** 32))
        cfg = prot.select(pgmat=w["pg"], gmat=w["gm"], ptdf=None, bvmat=w["bv"], gpmod=w["gp"], t_cur=k, t_max=5, miscout=misc)
        ctx.check(isinstance(cfg, SubsetMateSelectionConfiguration), "select.configuration_type", lambda: type(cfg).__name__)
        rows = check_header(ctx, cfg, w["pg"], T, nparent, case["nmating"], case["nprogeny"], "select")
        soln = misc.get("sosoln")
        ctx.check(soln is not None and soln.nsoln >= 1, "select.no_solution_in_miscout", lambda: str(sorted(misc)))
        dl = [int(e) for e in cfg.xconfig_decn.tolist()]
        evidence = lambda: "%s population%s: ntaxa=%d nparent=%d unique_parents=%s xconfig %s, xconfig_decn %s, solution decn %s" % (     # noqa: E731
            tag, use, n, nparent, unique, rows, dl, numpy.asarray(soln.soln_decn).tolist())
        ctx.check(numpy.array_equal(numpy.asarray(soln.soln_decn[0]), cfg.xconfig_decn), "select.decision_is_not_the_reported_solution", evidence)
        ctx.check(len(dl) == T and len(set(dl)) == T, "select.decision_repeats_a_member", evidence)
        got = check_mate_config(ctx, soln, rows, dl, n, nparent, unique, evidence)
        if not all(0 <= d < len(got) for d in dl):
            continue
        # truncation: the chosen crosses (as crosses of original individuals) are the T best candidate crosses
        named = [cross_key(proto, scheme, [order[e] for e in got[d]]) for d in dl]
        ctx.check(all(c in index for c in named), "mate_trunc.chosen_cross_is_not_a_candidate", evidence)
        if not all(c in index for c in named):
            continue                          # (clause already recorded; the runner keeps searching behind it)
        ix = [index[c] for c in named]
        inside = max(lo[i] for i in ix)
        rest = set(range(len(cand))) - set(ix)
        outside = min((hi[i] for i in rest), default=None)
        ctx.check(outside is None or inside <= outside, "mate_trunc.chosen_are_not_the_best_by_criterion",
                  lambda: "%s population%s: %s%s chose crosses %s with objective values (minimised) %s although unchosen candidate %s has %r (%d candidates, ntaxa=%d "
                          "nparent=%d unique_parents=%s)" % (tag, use, type(prot).__name__, " with the %s DH variance factory" % (scheme if scheme == "dihybrid" else scheme + "-way") if scheme else "",
                                                             named[:12], [0.5 * (lo[i] + hi[i]) for i in ix][:12],
                                                             cand[min(rest, key=lambda i: hi[i])], outside, len(cand), n, nparent, unique))
        chosen[tag] = sorted(named)
    # the permuted population offers the same crosses (always for OHV, two-way and dihybrid crosses): the same crosses are chosen
    comparable = len(chosen) == 2 and candset["passed"] == candset["permuted"] and clear["passed"] and clear["permuted"]
    ctx.label("permuted_population_offers_the_same_crosses", candset["passed"] == candset["permuted"])
    if comparable:
        ctx.check(chosen["passed"] == chosen["permuted"], "mate_trunc.permutation_changes_selected_crosses",
                  lambda: "selected %s, after permuting the population by %s: %s%s" % (chosen["passed"][:12], case["perm"], chosen["permuted"][:12], use))


# =====================================================================================================================
SUBCHECKS = [
    SubCheck("cfg", check_cfg, cfg_case(), quick=400, thorough=5000, shards_quick=4,
             rule="generated (8 configuration classes) x ntaxa 1-8 x ncross 1-6 x nparent 1-4 x decision (subset / 0-1 / counts / "
                  "contributions with zeros) x rng kind+seed x 0-2 re-samplings; non-trivial = table has >= 2 slots and the decision "
                  ">= 2 chosen options",
             required_labels=("more_slots_than_chosen", "fewer_slots_than_chosen", "selfing_forced", "table_has_unavoidable_selfing",
                              "cls=subset", "cls=real", "cls=integer", "cls=binary", "cls=submate", "cls=realmate", "cls=intmate", "cls=binmate")),
    SubCheck("cfg_dense", check_cfg, cfg_dense_case(), quick=500, thorough=4000, shards_quick=4,
             rule="integer / real selection configurations with 3-6 crosses of 3-4 parents from 2-4 individuals with very uneven "
                  "contributions, each sampled 3-6 times; same clauses as cfg (tiling law, local optimum of the outcross exchange "
                  "neighbourhood); non-trivial = at least two slots and two chosen individuals"),
    SubCheck("select_trunc", check_select_trunc, trunc_case(), quick=150, thorough=2000, shards_quick=4,
             rule="generated population (3-17 taxa, non-sorted labels, integer (tied) or float values) x (EBV|GEBV subset selection, "
                  "sorting optimiser) x ncross 1-4 x nparent 1-3 x latent combination x obj_wt sign x unscale x a permutation of the "
                  "population x 0-2 further uses of the same protocol object after reassigning settings / exchanging the population; "
                  "non-trivial = >= 2 selected, >= 1 rejected, >= 3 distinct criterion values",
             required_labels=("tie_at_truncation_point", "all_criterion_values_distinct", "source=gebv", "negative_obj_wt", "combine=dot",
                              "reuse:use_2", "reuse:use_3", "reuse:changed_unscale", "reuse:population_same", "reuse:population_same_size")),
    SubCheck("select_ga", check_select_ga, ga_case(), quick=80, thorough=1500, shards_quick=6,
             rule="generated population x 10 protocol/encoding combinations x single/multi-objective x tiny GA budgets x preference "
                  "transformation (bundled default | harness weighted sum in units 2^-60..2^30 about an origin up to 2^36 away, ndset_wt of either sign) x 0-2 further uses of the same "
                  "protocol object after reassigning settings / exchanging the population; non-trivial = >= 2 table slots and >= 3 taxa",
             required_labels=("front_size>=2", "preference_has_unique_maximiser", "pref=sum", "pref=default", "pref=sum:origin_far_from_scores",
                              "pref=sum:tiny_units", "worse_point_within_1e-5_of_best_listed_earlier", "reuse:use_2", "reuse:changed_unique",
                              "reuse:population_same", "reuse:population_same_size", "reuse:same_ntaxa_and_nparent_other_setting_changed")
             + tuple("proto=" + p for p in PROTOCOLS)),
    SubCheck("mate_trunc", check_mate_trunc, mate_trunc_case(), quick=100, thorough=1500, shards_quick=4,
             rule="generated phased population (3-9 taxa, 1-3 chromosomes, integer (tied) or float effects; inbred lines for UC, "
                  "heterozygous for a quarter of the dihybrid UC cases) x (OHV nparent 1-3 | UC with the two-way / three-way / four-way / "
                  "dihybrid DH variance factory, nparent 2/3/4/2) x unique_parents x ncross 1-6 x latent combination x obj_wt sign x a permutation "
                  "of the population x 0-2 further uses of the same protocol object after reassigning settings / exchanging the "
                  "population; sorting optimiser; non-trivial = some candidate cross is rejected and >= 3 distinct criterion values",
             required_labels=("proto=ohv", "proto=uc", "tie_at_truncation_point", "best_set_unambiguous", "self_crosses_are_candidates",
                              "scheme=two:best_set_unambiguous", "scheme=three:best_set_unambiguous", "scheme=four:best_set_unambiguous",
                              "scheme=dihybrid:best_set_unambiguous", "heterozygous_parents", "reuse:changed_scheme",
                              "permuted_population_offers_the_same_crosses", "negative_obj_wt", "combine=dot", "reuse:use_2", "reuse:use_3", "reuse:changed_unique", "reuse:changed_nparent",
                              "reuse:population_same", "reuse:population_same_size", "reuse:population_new",
                              "reuse:same_ntaxa_and_nparent_other_setting_changed")),
    SubCheck("mate_trunc_large", check_mate_trunc, cases=mate_trunc_large_cases, shards_quick=8, shards_thorough=16,
             rule="fixed population sizes whose candidate-cross count lies just below / above 1024 and 2048 (two-way with and "
                  "without self-crosses, three-way, four-way, single-parent), random phased genotypes and effects from VERIF_SEED, "
                  "two uses of one protocol object; OHV, UC two-way and (quick: 20 lines three-way = 1140 candidates; thorough: also "
                  "four-way and dihybrid) the other UC cross schemes; 8 cases in the quick tier, 54 in the thorough tier",
             required_labels=("candidates>1024", "candidates>2048", "proto=ohv", "proto=uc", "best_set_unambiguous", "scheme=two", "scheme=three")),
]
