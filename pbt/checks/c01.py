"""C01 — Mendelian fidelity of the seven mating protocols (provenance tracing through tagged founder haplotypes)."""
import os
import re

import numpy
from hypothesis import strategies as st

from pbt import compat  # noqa: F401
from pbt.core import SubCheck
from pbt import gens

from pybrops.breed.prot.mate.SelfCross import SelfCross
from pybrops.breed.prot.mate.TwoWayCross import TwoWayCross
from pybrops.breed.prot.mate.TwoWayDHCross import TwoWayDHCross
from pybrops.breed.prot.mate.ThreeWayCross import ThreeWayCross
from pybrops.breed.prot.mate.ThreeWayDHCross import ThreeWayDHCross
from pybrops.breed.prot.mate.FourWayCross import FourWayCross
from pybrops.breed.prot.mate.FourWayDHCross import FourWayDHCross
from pybrops.breed.prot.mate import util as mate_util
from pybrops.core.util import mate as core_mate

ASSUMPTIONS = [
    "once a progeny counter needs 8 digits (names are zero-padded to 7 and mate() ends with a taxa grouping whose tie-break is "
    "the name) the order inside a family is not asserted; every progeny is then located through the counter in its own name",
    "at least one progeny is requested in total (individual crosses may have zero matings/progeny)",
    "starting copy at the first marker is unconstrained (no interval precedes it)",
]

THOROUGH = os.environ.get("PBT_TIER") == "thorough"      # larger size bounds in the thorough tier
MAXN, MAXP, MAXCROSS = (40, 30, 8) if THOROUGH else (12, 14, 5)

# name -> (class, nparent, is_dh, has_mating_level)
PROTOCOLS = {
    "Self": (SelfCross, 1, False, False),
    "TwoWay": (TwoWayCross, 2, False, False),
    "TwoWayDH": (TwoWayDHCross, 2, True, True),
    "ThreeWay": (ThreeWayCross, 3, False, True),
    "ThreeWayDH": (ThreeWayDHCross, 3, True, True),
    "FourWay": (FourWayCross, 4, False, True),
    "FourWayDH": (FourWayDHCross, 4, True, True),
}


def side_parents(prot, row, nself):
    """taxon indices allowed as source of (phase0, phase1) of a progeny of cross `row` (documented column roles)"""
    row = [int(x) for x in row]
    allp = set(row)
    isdh = PROTOCOLS[prot][2]
    if nself > 0 or isdh:
        return allp, allp
    if prot == "Self":
        return {row[0]}, {row[0]}
    if prot == "TwoWay":
        return {row[0]}, {row[1]}            # female, male
    if prot == "ThreeWay":
        return {row[0]}, {row[1], row[2]}    # recurrent ; F1 of (female x male)
    if prot == "FourWay":
        return {row[2], row[3]}, {row[0], row[1]}
    raise AssertionError(prot)


def sibling_slots(prot, row, nself):
    """For the progeny of ONE mating: list of (phases, slots); at every locus the founder ids seen among these siblings in
    `phases` must be coverable by the slots, each slot (a set of parent taxa) contributing at most one id."""
    row = [int(x) for x in row]
    allp = set(row)
    if prot == "TwoWayDH":
        return [((0, 1), [allp, allp] if nself > 0 else [{row[0]}, {row[1]}])]
    if prot == "ThreeWayDH":
        return [((0, 1), [allp, allp] if nself > 0 else [{row[0]}, {row[1], row[2]}])]
    if prot == "FourWayDH":
        return [((0, 1), [allp, allp] if nself > 0 else [{row[2], row[3]}, {row[0], row[1]}])]
    if prot == "ThreeWay" and nself == 0:
        return [((1,), [{row[1]}, {row[2]}])]
    if prot == "FourWay" and nself == 0:
        return [((0,), [{row[2]}, {row[3]}]), ((1,), [{row[0]}, {row[1]}])]
    return []


def coverable(ids, slots):
    """can the id set be matched injectively into slots (id 2t+k belongs to taxon t)? (<=2 slots in practice)"""
    ids = sorted(ids)
    if len(ids) > len(slots):
        return False
    tax = [i // 2 for i in ids]

    def rec(k, used):
        if k == len(ids):
            return True
        for s in range(len(slots)):
            if s not in used and tax[k] in slots[s]:
                if rec(k + 1, used | {s}):
                    return True
        return False
    return rec(0, frozenset())


@st.composite
def mate_case(draw):
    prot = draw(st.sampled_from(sorted(PROTOCOLS)))
    npar = PROTOCOLS[prot][1]
    mode = draw(st.sampled_from(["tagged", "tagged", "tagged", "wild"]))
    n = draw(st.integers(1, MAXN if mode == "tagged" else 5))
    p = draw(st.integers(1, MAXP))
    lay = draw(gens.variant_layout(p))
    case = {"prot": prot, "mode": mode, "n": n, "p": p, "lay": lay}
    if mode == "wild":
        case["cells"] = draw(st.lists(st.integers(-128, 127), min_size=1, max_size=2 * n * p))
    ncross = draw(st.integers(1, MAXCROSS))
    style = draw(st.sampled_from(["any", "any", "selfs", "repeat_row", "distinct"]))
    xc = []
    for c in range(ncross):
        if style == "selfs":
            a = draw(st.integers(0, n - 1))
            row = [a] * npar
            if npar > 1 and draw(st.booleans()):
                row[draw(st.integers(0, npar - 1))] = draw(st.integers(0, n - 1))
        elif style == "repeat_row" and c > 0:
            row = list(xc[0])
        elif style == "distinct" and n >= npar:
            row = draw(st.permutations(list(range(n))))[:npar]
        else:
            row = [draw(st.integers(0, n - 1)) for _ in range(npar)]
        xc.append([int(x) for x in row])
    case["xconfig"] = xc

    def counts():
        if draw(st.booleans()):
            return draw(st.integers(1, 3))
        v = [draw(st.integers(0, 3)) for _ in range(ncross)]
        return v
    case["nmating"] = counts()
    case["nprogeny"] = counts()
    # make sure at least one progeny in total (construction, not rejection)
    nm = case["nmating"] if isinstance(case["nmating"], list) else [case["nmating"]] * ncross
    npg = case["nprogeny"] if isinstance(case["nprogeny"], list) else [case["nprogeny"]] * ncross
    if sum(a * b for a, b in zip(nm, npg)) == 0:
        k = draw(st.integers(0, ncross - 1))
        if isinstance(case["nmating"], list):
            case["nmating"][k] = max(1, case["nmating"][k])
        if isinstance(case["nprogeny"], list):
            case["nprogeny"][k] = max(1, case["nprogeny"][k])
    # per-cross count arrays may come in any integer dtype (tables read from files, numpy scalars); in a quarter of those
    # cases one cross has a mating x progeny product beyond the range of a narrow dtype (e.g. 16 x 10 in int8)
    case["count_dtype"] = draw(st.sampled_from(["int64", "int64", "int8", "uint8", "int16", "int32", "uint16"]))
    if isinstance(case["nmating"], list) and isinstance(case["nprogeny"], list) and draw(st.integers(0, 3)) == 0:
        k = draw(st.integers(0, ncross - 1))
        case["nmating"][k] = draw(st.sampled_from([12, 16, 20]))
        case["nprogeny"][k] = draw(st.sampled_from([11, 13, 16]))
    # some parents are addressed through negative indices (the same taxon counted from the end, as numpy indexing allows)
    case["negative_index"] = draw(st.sampled_from([False, False, True]))
    case["nself"] = draw(st.sampled_from([0, 0, 0, 1, 2, 3]))
    case["rng"] = draw(gens.rng_spec())
    case["pc0"] = draw(st.sampled_from([0, 0, 7, 12345, 9990000, 9999995, 10 ** 7, 123456789]))
    case["fc0"] = draw(st.sampled_from([0, 0, 3, 4000]))
    case["second_call"] = draw(st.booleans())
    # between the two calls the parents' crossover-probability array may be edited IN PLACE (same array object): the second
    # call must honour the probabilities the matrix holds at that time
    case["edit_xoprob_between_calls"] = draw(st.lists(st.tuples(st.integers(0, 10 ** 6), st.sampled_from([0.0, 0.0, 0.5, 0.3])).map(list), max_size=4))
    case["miscout"] = draw(st.booleans())
    return case


def _counts(v, ncross):
    return list(v) if isinstance(v, list) else [int(v)] * ncross


def _arg(v, dtype="int64"):
    return numpy.array(v, dtype=dtype) if isinstance(v, list) else int(v)


NAME_RE = re.compile(r"^(.*\D)(\d+)$")


def check_mate(case, ctx):
    prot = case["prot"]
    cls, npar, isdh, has_mating = PROTOCOLS[prot]
    n, p, lay = case["n"], case["p"], case["lay"]
    tagged = case["mode"] == "tagged"
    mat = gens.tagged_geno(n, p) if tagged else gens.wild_geno(n, p, case["cells"])
    pg = gens.build_pgmat(mat.copy(), lay)
    xoprob = numpy.array(lay["xoprob"], dtype="float64")
    xconfig = numpy.array(case["xconfig"], dtype="int64")
    if case.get("negative_index"):
        neg = (numpy.arange(xconfig.size).reshape(xconfig.shape) % 2) == 0
        xconfig = numpy.where(neg, xconfig - n, xconfig)          # index i - n denotes the same taxon as i
    ncross = len(xconfig)
    nm = _counts(case["nmating"], ncross)
    npg = _counts(case["nprogeny"], ncross)
    nself = case["nself"]
    rng = gens.build_rng(case["rng"], xoprob)
    mp = cls(progeny_counter=case["pc0"], family_counter=case["fc0"], rng=rng)

    fields = gens.VRNT_FIELDS + gens.VRNT_GRP_FIELDS + gens.TAXA_FIELDS + gens.TAXA_GRP_FIELDS
    snap = gens.snapshot(pg, fields)
    snap_mat = pg.mat.copy()
    xsnap = xconfig.copy()

    # labels -------------------------------------------------------------------------------------------------
    ctx.label(prot)
    ctx.label("mode:" + case["mode"])
    ctx.label("selfed_cross", any(len(set(r)) < len(r) for r in case["xconfig"]) and npar > 1)
    ctx.label("repeated_row", len(set(map(tuple, case["xconfig"]))) < ncross)
    ctx.label("array_counts_unequal", len(set(a * b for a, b in zip(nm, npg))) > 1)
    ctx.label("zero_count_cross", any(a * b == 0 for a, b in zip(nm, npg)))
    ctx.label("nself>0", nself > 0)
    ctx.label("xoprob_exact0_next_to_positive", any(xoprob[j] == 0.0 and (xoprob[j - 1] > 0 or (j + 1 < p and xoprob[j + 1] > 0)) for j in range(1, p)))
    ctx.label("scripted_rng", case["rng"]["kind"] == "scripted")
    ctx.label("rng:" + case["rng"]["kind"])
    ctx.label("second_call", case["second_call"])
    ctx.label("single_marker", p == 1)
    ctx.label("single_taxon", n == 1)
    ctx.label("negative_parent_index", bool(case.get("negative_index")))
    arr_counts = isinstance(case["nmating"], list) or isinstance(case["nprogeny"], list)
    ctx.label("count_arrays_dtype=" + case.get("count_dtype", "int64"), arr_counts)
    ctx.label("count_product_beyond_int8", arr_counts and case.get("count_dtype", "int64") in ("int8", "uint8")
              and any(a * b > 127 for a, b in zip(nm, npg)))

    outs = []
    xoprob_by_call = [xoprob.copy()]      # crossover probabilities in force at each call
    pc, fc = case["pc0"], case["fc0"]
    for call in range(2 if case["second_call"] else 1):
        kw = {}
        if case["miscout"]:
            kw["miscout"] = {}
        cdt = case.get("count_dtype", "int64")
        out = mp.mate(pg, xconfig, _arg(case["nmating"], cdt), _arg(case["nprogeny"], cdt), nself=nself, **kw)
        outs.append((out, pc, fc, gens.snapshot(out, gens.VRNT_FIELDS + gens.VRNT_GRP_FIELDS)))
        N = sum(a * b for a, b in zip(nm, npg))
        # counters advanced by exactly what was produced
        ctx.check(mp.progeny_counter == pc + N, "counters.progeny", "progeny_counter=%s expected %s" % (mp.progeny_counter, pc + N))
        ctx.check(mp.family_counter == fc + ncross, "counters.family", "family_counter=%s expected %s" % (mp.family_counter, fc + ncross))
        pc, fc = pc + N, fc + ncross
        if call == 0 and case["second_call"] and case.get("edit_xoprob_between_calls"):
            live = pg.vrnt_xoprob                      # the array the public getter hands out
            for (jraw, val) in case["edit_xoprob_between_calls"]:
                live[jraw % p] = val
            xoprob_by_call.append(numpy.array(live, dtype="float64"))
            ctx.label("xoprob_edited_in_place_between_calls")
        else:
            xoprob_by_call.append(xoprob_by_call[-1])

    # inputs untouched --------------------------------------------------------------------------------------------
    ctx.check((pg.mat == snap_mat).all(), "parents.genotypes_modified")
    if len(xoprob_by_call) > 1:
        snap["vrnt_xoprob"] = xoprob_by_call[min(len(outs), len(xoprob_by_call)) - 1].copy()   # the harness' own in-place edit
    bad = gens.diff_snapshot(snap, pg)
    ctx.check(not bad, "parents.metadata_modified", str(bad))
    ctx.check((xconfig == xsnap).all(), "xconfig_modified")

    allnames = []
    any_nontrivial = False
    for oi, (out, pc0, fc0, outmeta) in enumerate(outs):
        xoprob = xoprob_by_call[oi]
        snap["vrnt_xoprob"] = xoprob_by_call[oi].copy()
        g = out.mat
        N = sum(a * b for a, b in zip(nm, npg))
        if not ctx.check(g.ndim == 3 and g.shape == (2, N, p), "count.ntaxa", "shape %s expected (2,%d,%d)" % (g.shape, N, p)):
            return
        ctx.check(g.dtype == numpy.dtype("int8"), "dtype")
        # expected cross of every progeny in generation order (cross-major), mating index within the cross
        gen_cross, gen_mating = [], []
        for c in range(ncross):
            for q in range(nm[c] * npg[c]):
                gen_cross.append(c)
                gen_mating.append(q // npg[c] if npg[c] else 0)
        # Names are zero-padded to 7 digits and mate() ends with a grouping whose tie-break is the name, so once a progeny
        # number needs 8 digits the order inside a family is no longer the generation order ('dh10000000' < 'dh9999998').
        # Then each progeny is located through the counter embedded in its own name instead of through its position.
        rollover = pc0 + N > 10 ** 7
        ctx.label("counter_rollover", rollover)
        cross_of, mating_of = list(gen_cross), list(gen_mating)
        if rollover:
            tx0 = out.taxa
            ms0 = [NAME_RE.match(str(x)) for x in tx0] if tx0 is not None and len(tx0) == N else []
            nums0 = [int(m.group(2)) - pc0 for m in ms0 if m is not None]
            if not ctx.check(len(nums0) == N and sorted(nums0) == list(range(N)), "names.counter",
                             lambda: "names %s are not the %d distinct progeny numbers starting at %d" % ([str(x) for x in tx0][:8], N, pc0)):
                return
            cross_of = [gen_cross[q] for q in nums0]
            mating_of = [gen_mating[q] for q in nums0]
        # family labels
        tg = out.taxa_grp
        if ctx.check(tg is not None and len(tg) == N, "family.labels_missing"):
            exp = [fc0 + c for c in cross_of]
            ctx.check([int(x) for x in tg] == exp, "family.labels", lambda: "taxa_grp=%s expected %s" % (list(tg), exp))
        # names: distinct, embedded counter consecutive from the protocol's counter
        tx = out.taxa
        if ctx.check(tx is not None and len(tx) == N, "names.missing"):
            names = [str(x) for x in tx]
            allnames.extend(names)
            ms = [NAME_RE.match(s) for s in names]
            if ctx.check(all(m is not None for m in ms), "names.format", str(names[:4])):
                nums = [int(m.group(2)) for m in ms]
                if rollover:
                    ctx.check(sorted(nums) == list(range(pc0, pc0 + N)), "names.counter", lambda: "%s expected counters %d.." % (names[:6], pc0))
                else:
                    ctx.check(nums == list(range(pc0, pc0 + N)), "names.counter", lambda: "%s expected counters %d.." % (names[:6], pc0))
                ctx.check(len(set(m.group(1) for m in ms)) == 1, "names.prefix_varies")
        # grouping metadata describes a true partition
        if out.is_grouped_taxa():
            errs = gens.partition_errors(out.taxa_grp, out.taxa_grp_name, out.taxa_grp_stix, out.taxa_grp_spix, out.taxa_grp_len)
            ctx.check(not errs, "taxa_group_partition", str(errs))
        else:
            ctx.fail("taxa_not_grouped", "mate() output does not report grouped taxa")
        # marker metadata carried
        # (the progeny's metadata as it was when mate() returned: the arrays may be shared with the parents, and the harness
        # itself edits the parents' crossover probabilities in place between two calls)
        for f in gens.VRNT_FIELDS:
            same = gens.same_array(snap[f], outmeta[f])
            if not same and f in ("vrnt_hapalt", "vrnt_hapref") and ctx.known("F-C01-a", True):
                continue
            ctx.check(same, "metadata.%s" % f, lambda: "input %s output %s" % (snap[f], outmeta[f]))
        for f in gens.VRNT_GRP_FIELDS:
            ctx.check(gens.same_array(snap[f], outmeta[f]), "metadata.%s" % f)

        # ---- provenance ----------------------------------------------------------------------------------------
        for i in range(N):
            c = cross_of[i]
            row = case["xconfig"][c]
            a0, a1 = side_parents(prot, row, nself)
            for k, allowed in ((0, a0), (1, a1)):
                if tagged:
                    okids = set()
                    for t in allowed:
                        okids.add(2 * t)
                        okids.add(2 * t + 1)
                    seen = set(int(x) for x in g[k, i])
                    ctx.check(seen <= okids, "membership",
                              lambda: "%s progeny %d (cross %d = %s) phase %d carries founder haplotypes %s; allowed taxa %s" % (
                                  prot, i, c, row, k, sorted(seen), sorted(allowed)))
                    # source copy changes only where xoprob > 0
                    for j in range(1, p):
                        if g[k, i, j] != g[k, i, j - 1]:
                            ctx.check(xoprob[j] > 0.0, "switch_at_zero_probability_interval",
                                      lambda: "progeny %d phase %d switches %d->%d entering marker %d where xoprob=%r" % (
                                          i, k, g[k, i, j - 1], g[k, i, j], j, float(xoprob[j])))
                else:
                    for j in range(p):
                        pool = set(int(mat[ph, t, j]) for t in allowed for ph in (0, 1))
                        ctx.check(int(g[k, i, j]) in pool, "membership.allele",
                                  lambda: "progeny %d phase %d marker %d allele %d not among parents' %s" % (i, k, j, g[k, i, j], sorted(pool)))
            if isdh:
                ctx.check((g[0, i] == g[1, i]).all(), "dh_homozygous", "progeny %d" % i)
        # ---- sibling structure (one intermediate hybrid per mating) ---------------------------------------------
        if tagged and has_mating:
            groups = {}
            for i in range(N):
                groups.setdefault((cross_of[i], mating_of[i]), []).append(i)
            for (c, m), members in groups.items():
                row = case["xconfig"][c]
                for phases, slots in sibling_slots(prot, row, nself):
                    if len(members) > 1:
                        ctx.label("siblings_checked")
                    for j in range(p):
                        ids = set(int(g[k, i, j]) for k in phases for i in members)
                        ctx.check(coverable(ids, slots), "sibling_structure",
                                  lambda: "%s cross %d=%s mating %d: siblings %s carry ids %s at marker %d; one hybrid can supply at most one per slot %s" % (
                                      prot, c, row, m, members, sorted(ids), j, [sorted(s) for s in slots]))
        if N >= 1 and p >= 2 and tagged and any(0.0 < x <= 0.5 for x in xoprob[1:]):
            any_nontrivial = True
    ctx.check(len(set(allnames)) == len(allnames), "names.duplicate_across_calls")
    ctx.nontrivial(any_nontrivial)


# ------------------------------------------------------------------------------------------------------------------
# kernels
# ------------------------------------------------------------------------------------------------------------------
KERNELS = {
    "mat_meiosis": mate_util.mat_meiosis, "dense_meiosis": core_mate.dense_meiosis,
    "mat_dh": mate_util.mat_dh, "dense_dh": core_mate.dense_dh,
    "mat_mate": mate_util.mat_mate, "dense_cross": core_mate.dense_cross,
}


@st.composite
def kernel_case(draw):
    k = draw(st.sampled_from(sorted(KERNELS)))
    n = draw(st.integers(1, 10))
    p = draw(st.integers(1, 16))
    nsel = draw(st.integers(0, 8))
    case = {"kernel": k, "n": n, "p": p,
            "sel": [draw(st.integers(0, n - 1)) for _ in range(nsel)],
            "msel": [draw(st.integers(0, n - 1)) for _ in range(nsel)],
            "xoprob": draw(gens.xoprob_free(p)),
            "rng": draw(gens.rng_spec()),
            "mode": draw(st.sampled_from(["tagged", "tagged", "wild"]))}
    if case["mode"] == "wild":
        case["cells"] = draw(st.lists(st.integers(-128, 127), min_size=1, max_size=40))
    return case


def check_kernel(case, ctx):
    kname = case["kernel"]
    fn = KERNELS[kname]
    n, p = case["n"], case["p"]
    tagged = case["mode"] == "tagged"
    geno = gens.tagged_geno(n, p) if tagged else gens.wild_geno(n, p, case["cells"])
    geno2 = geno.copy()
    xoprob = numpy.array(case["xoprob"], dtype="float64")
    sel = numpy.array(case["sel"], dtype="int64")
    msel = numpy.array(case["msel"], dtype="int64")
    rng = gens.build_rng(case["rng"], xoprob)
    ctx.label(kname)
    ctx.label("rng:" + case["rng"]["kind"])
    ctx.label("empty_sel", len(sel) == 0)
    ctx.nontrivial(len(sel) > 0 and p >= 2 and tagged and any(0 < x for x in xoprob[1:]))

    def mosaic(row, s, what):
        for j in range(p):
            ctx.check(int(row[j]) in (int(geno2[0, s, j]), int(geno2[1, s, j])), "kernel.membership",
                      lambda: "%s %s: marker %d has %d, parent %d has (%d,%d)" % (kname, what, j, row[j], s, geno2[0, s, j], geno2[1, s, j]))
        if tagged:
            for j in range(1, p):
                if row[j] != row[j - 1]:
                    ctx.check(xoprob[j] > 0.0, "kernel.switch_at_zero_probability_interval",
                              lambda: "%s %s switches entering marker %d, xoprob=%r" % (kname, what, j, float(xoprob[j])))

    if kname.endswith("meiosis"):
        out = fn(geno, sel, xoprob, rng)
        if ctx.check(out.shape == (len(sel), p) and out.dtype == geno.dtype, "kernel.shape", str(out.shape)):
            for i, s in enumerate(case["sel"]):
                mosaic(out[i], s, "gamete %d" % i)
    elif kname.endswith("dh"):
        out = fn(geno, sel, xoprob, rng)
        if ctx.check(out.shape == (2, len(sel), p) and out.dtype == geno.dtype, "kernel.shape", str(out.shape)):
            ctx.check((out[0] == out[1]).all(), "kernel.dh_homozygous")
            for i, s in enumerate(case["sel"]):
                mosaic(out[0, i], s, "dh %d" % i)
    else:
        out = fn(geno, geno, sel, msel, xoprob, rng)
        if ctx.check(out.shape == (2, len(sel), p) and out.dtype == geno.dtype, "kernel.shape", str(out.shape)):
            for i in range(len(sel)):
                mosaic(out[0, i], case["sel"][i], "progeny %d female side" % i)
                mosaic(out[1, i], case["msel"][i], "progeny %d male side" % i)
    ctx.check((geno == geno2).all(), "kernel.input_modified")


SUBCHECKS = [
    SubCheck("protocols", check_mate, mate_case(), quick=450, thorough=4000, shards_quick=8,
             rule="generated (protocol, tagged|wild parents 1..12 taxa x 1..14 markers x 1..4 chromosomes, xconfig with forced "
                  "selfs/repeats/distinct, scalar|array counts incl. zeros, nself 0..3, free xoprob with exact 0/0.5, "
                  "default_rng|RandomState|scripted boundary draws, counters, optional second call); non-trivial = tagged parents, "
                  ">=1 progeny, >=2 markers and some interval with xoprob in (0,0.5]",
             required_labels=("selfed_cross", "repeated_row", "array_counts_unequal", "zero_count_cross", "nself>0",
                              "xoprob_exact0_next_to_positive", "scripted_rng", "siblings_checked")),
    SubCheck("kernels", check_kernel, kernel_case(), quick=500, thorough=5000, shards_quick=2,
             rule="generated (kernel of util.py / core/util/mate.py, tagged|wild geno, arbitrary sel incl. empty, free xoprob, "
                  "three generator kinds); non-trivial = tagged, >=1 gamete, >=2 markers, some positive interval"),
]
