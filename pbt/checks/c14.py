"""C14 -- phenotyping and breeding-value estimation preserve truth and alignment.

Sub-checks
  trial    G_E_Phenotyping on small generated populations / genomic models / trial layouts: record structure, labels,
           zero-noise truth, deterministic structure of the noise (which effects are shared by which records: decided
           with partially-zero variance settings), heritability -> error variance, then MeanPhenotypicBreedingValue,
           TruePhenotyping and TrueBreedingValue on the same population (alignment by label).
  meanbv   MeanPhenotypicBreedingValue on hand-built phenotype tables: rows permuted, taxa missing from the table, taxa
           missing from the genotype matrix, genotype order unrelated to sort order, with and without a genotype matrix.
  stats    large trials; exact chi-square tests of the within-block, replicate-within-environment and environment mean
           squares of (record - oracle genotypic value) against the requested variances (explicit alpha budget).

Widened input classes (after adversarial seeds, see sensitivity/C14.md): variance arguments as plain / read-only / strided-view /
float32 arrays, the *same* array object passed for several variance arguments, a second protocol configured from the very same
argument objects whose heritability is set (the first protocol's requested variances are unchanged), variances assigned through
the public setters, a trial run before the heritability is set; phenotype-table label columns stored as object / str /
"string" / categorical (sorted, ordered, with unused categories) and family columns as int8 / int32 / Int64 / categorical;
the *row index* of the phenotype table (RangeIndex, shuffled integers, strings, repeated labels as left by pandas.concat of
several tables, one label for all rows, MultiIndex, the taxon labels, floats with NaN, repeated dates, CategoricalIndex); the
table of two stacked trials (whole population + a sub-list of it) and a genotype matrix listing a sub-list of the taxa;
the *contents* of the labels (taxa, trait names, names of the label columns, family labels): edge / inner white space, blank and
empty labels, 'nan' / 'None' / 'NA', numeric-looking strings, case variants, composed / decomposed unicode, prefixes, long
labels, punctuation, drawn text, integers and integers mixed with strings -- unique as Python objects, nothing more.

Oracle: genotypic values from the allele calls and model coefficients with math.fsum; variances with fractions.Fraction;
means with math.fsum; everything joined by taxon label and (env, rep), never by row position (unless there are no labels).
Labels are compared by Python equality of the objects themselves (dict keys / ==): never through str(), strip(), casefold() ...
"""
import math
import unicodedata
from collections import Counter
from fractions import Fraction

import numpy
import pandas
from hypothesis import strategies as st
from scipy import stats as sstats

from pbt import compat  # noqa: F401
from pbt.core import SubCheck

from pybrops.breed.prot.bv.MeanPhenotypicBreedingValue import MeanPhenotypicBreedingValue
from pybrops.breed.prot.bv.TrueBreedingValue import TrueBreedingValue
from pybrops.breed.prot.pt.G_E_Phenotyping import G_E_Phenotyping
from pybrops.breed.prot.pt.TruePhenotyping import TruePhenotyping
from pybrops.model.gmod.DenseAdditiveDominanceLinearGenomicModel import DenseAdditiveDominanceLinearGenomicModel
from pybrops.model.gmod.DenseAdditiveLinearGenomicModel import DenseAdditiveLinearGenomicModel
from pybrops.popgen.bvmat.DenseEstimatedBreedingValueMatrix import DenseEstimatedBreedingValueMatrix
from pybrops.popgen.gmat.DenseGenotypeMatrix import DenseGenotypeMatrix
from pybrops.popgen.gmat.DensePhasedGenotypeMatrix import DensePhasedGenotypeMatrix

EPS = 2.0 ** -52

# Per-test two-sided level of every chi-square test in `stats`.  A quick run makes <= 4 shards x 24 cases x 2 traits x 3 = 576
# tests, a thorough run <= 16 x 60 x 2 x 3 = 5760; Bonferroni: 5760 x 1e-13 < 1e-9 per run.
ALPHA_TEST = 1e-13

ASSUMPTIONS = [
    "taxa labels are unique within a population *as Python objects* (pairwise !=; records are joined by label); a label is a str of "
    "any contents or an int; a taxon has one group",
    "labels with an embedded NUL character are outside the domain: pandas itself (unique / factorize / groupby / Categorical, "
    "3.0.6) takes 'a', 'a\\x00' and 'a\\x00b' for one label, so a phenotype table cannot tell such taxa apart",
    "trait names and the names of the label columns are unique strings of any contents, different from each other and from "
    "the table's own 'taxa', 'taxa_grp', 'env', 'rep'",
    "diploid 0/1 phased allele calls; genomic models with one fixed effect (intercept) so that 'true genotypic value' = "
    "intercept + sum dosage*u_a (+ sum heterozygote*u_d) is unambiguous",
    "genetic variance = population variance (ddof 0) of the true additive (h2) or genotypic (H2) values of the taxa supplied",
    "MeanPhenotypicBreedingValue is configured with taxa_grp_col when the table has groups; for ungrouped populations both "
    "taxa_grp_col=None and (finding F-C14-a) taxa_grp_col='taxa_grp' on the all-missing group column are exercised",
    "phenotype tables contain no missing trait values",
    "statistical clauses: exact chi-square tails, two-sided level %g per test, <= 5760 tests per run => false-alarm "
    "probability < 1e-9 per run for a new seed (fixed seeds are deterministic)" % ALPHA_TEST,
]

NAME_POOL = ["m07", "b10", "Z3", "a2", "zz", "k", "A1", "x10", "x9", "c", "B", "y5", "d", "W", "q1", "e"]
TRAIT_POOL = ["yld", "ht", "aa"]

# Label contents.  Every cluster is a set of labels that are different Python objects (pairwise !=) but that some normalisation
# (strip, split, casefold, unicode normalisation, int(), float(), str(), missing-value parsing, prefix / truncated comparison,
# C-string handling of punctuation) would confuse with each other.  No label contains NUL (see ASSUMPTIONS).
LABEL_CLUSTERS = {
    "edge_ws": ["A1", "A1 ", " A1", " A1 ", "A1\t", "\nA1", "A1\u00a0", "\u2003A1", "A1\r\n", "A1  "],
    "inner_ws": ["a b", "a  b", "a\tb", "ab", "a\u00a0b", "a\nb", "a_b", "a b c"],
    "blank": ["", " ", "  ", "\t", "\u00a0", "\n", "_"],
    "missing_like": ["nan", "NaN", "None", "NA", "<NA>", "null", "N/A", "NaT", "none", "inf", "-inf", "#N/A", "NULL"],
    "numeric_like": ["1", "01", "1.0", "1e0", "+1", "0", "-0", "1 ", "True", "False", "0x1", "1_0", "10", "1.", "001"],
    "case": ["ab", "Ab", "aB", "AB", "\u00df", "ss", "SS", "\u0130", "i", "I", "\u0131"],
    "unicode": ["\u00e9", "e\u0301", "e", "\u212b", "\u00c5", "A\u030a", "\uff21", "A", "\u2126", "\u03a9", "\U0001f33d",
                "\u200bA", "A\u200b", "\ufb01", "fi"],
    "prefix": ["x", "x1", "x10", "x100", "x1 ", "x.1", "x1.0", "x_1", "x1x"],
    "long": ["L" * 300 + "a", "L" * 300 + "b", "L" * 300, "L" * 299, "L" * 3000 + "a", "L" * 3000 + "b", "a" + "L" * 300],
    "punct": ["b'a'", "a", "'a'", '"a"', "a,b", "a;b", "a|b", "a/b", "a\\b", "(1, 2)", "[1]", "{}", "a=b", "%s", "{0}", "a.b", "a:b", "#a"],
    "ints": [3, 1, 20, 100, -5, 0, 2 ** 40, 12],
    "mixed": [1, "1", 7, "7", 10, "10", -3, "-3", 0, "0", "01", " 1"],
}
CLUSTER_NAMES = sorted(LABEL_CLUSTERS)
PADS = ["", "", " ", "  ", "\t", "\n", "\u00a0", "\u2003", "\r\n"]
TEXT_ALPHABET = st.characters(codec="utf-8", exclude_characters="\x00")

TRAIT_CLUSTERS = [["yld", "yld ", " yld"], ["ht", "Ht", "HT"], ["1", "01", "1.0"], ["nan", "None", "NA"], ["", " ", "\t"],
                  ["\u00e9", "e\u0301", "e"], ["y", "y1", "y10"], ["L" * 300 + "a", "L" * 300 + "b", "L" * 300],
                  ["a b", "a  b", "a_b"], ["mean", "count", "index"], ["rep ", "Env", " env"], ["0", "1", "2"], ["a.b", "a,b", "a|b"]]
# (taxa column, family column, names of decoy columns holding *other* labels) of a hand-built phenotype table
COLUMN_SETS = [["taxa", "taxa_grp", []], ["taxa", "taxa_grp", []], ["taxa", "taxa_grp", ["taxa ", "Taxa", "taxa_grp ", "TAXA_GRP"]],
               ["line name", "family", []], ["taxa ", " taxa_grp", ["taxa", "taxa_grp"]], ["TAXA", "Taxa_Grp", ["taxa", "taxa_grp"]],
               ["7", "07", ["7.0"]], ["  ", "   ", []], ["t\u00e9", "te\u0301", []], ["NaN", "none", []], ["t", "tt", ["ttt"]]]
# family labels of a hand-built table that is joined onto a genotype matrix (there the column is only grouped on)
GRP_STR = {0: "F1", 1: "F1 ", 2: " F1", 3: "f1", 5: "F10"}


def _names_selftest():
    for tc, gc, dec in COLUMN_SETS:                 # no drawn table can hold two columns of one name
        for tr in TRAIT_CLUSTERS + [TRAIT_POOL]:
            allc = [tc, gc] + list(dec) + ["env"] + list(tr)
            assert len(set(allc)) == len(allc), allc
    for tr in TRAIT_CLUSTERS:
        assert not set(tr) & {"taxa", "taxa_grp", "env", "rep"} and len(set(tr)) == 3
    for c in LABEL_CLUSTERS.values():
        assert len(set((type(x), x) for x in c)) == len(c) and not any(isinstance(x, str) and "\x00" in x for x in c)


_names_selftest()


def sort_key(x):
    """numbers before strings (the order pandas sorts mixed labels in); used only to classify cases"""
    return (isinstance(x, str), x)


def pylab(x):
    """a label read back from pandas / numpy as the plain Python object (str stays str, integers become int); no normalisation"""
    if isinstance(x, str):
        return str(x)
    if isinstance(x, (bool, numpy.bool_)):
        return x
    if isinstance(x, (int, numpy.integer)):
        return int(x)
    return x


def same_labels(a, b):
    """equal as multisets of Python objects"""
    return Counter(pylab(x) for x in a) == Counter(pylab(x) for x in b)


def confusable(labels):
    """{normalisation: True} for every normalisation under which two of the (distinct) labels would collide, plus content classes"""
    strs = [x for x in labels if isinstance(x, str)]
    out = {}

    def collide(name, fn, pool):
        vals = []
        for x in pool:
            try:
                vals.append(fn(x))
            except (ValueError, OverflowError):
                pass
        out[name] = len(set(vals)) < len(vals)

    out["edge_white_space"] = any(x != x.strip() for x in strs)
    collide("collide_after_strip", lambda x: x.strip(), strs)
    collide("collide_after_removing_white_space", lambda x: "".join(x.split()), strs)
    collide("collide_after_casefold", lambda x: x.casefold(), strs)
    collide("collide_after_unicode_normalisation", lambda x: unicodedata.normalize("NFKC", x), strs)
    collide("collide_as_numbers", lambda x: float(x), labels)
    collide("collide_after_str", lambda x: str(x), labels)
    collide("collide_in_first_3_characters", lambda x: x[:3], [x for x in strs if len(x) >= 3])
    out["collide_in_first_255_characters"] = len(set(x[:255] for x in strs if len(x) > 255)) < len([x for x in strs if len(x) > 255])
    out["one_is_prefix_of_another"] = any(a != b and b.startswith(a) and a != "" for a in strs for b in strs)
    out["empty_or_blank"] = any(x.strip() == "" for x in strs)
    out["missing_value_word"] = any(x.strip().lower() in ("nan", "none", "na", "<na>", "null", "n/a", "nat", "#n/a") for x in strs)
    out["numeric_looking_string"] = any(x.strip().lstrip("+-").replace(".", "", 1).isdigit() for x in strs)
    out["non_ascii"] = any(not x.isascii() for x in strs)
    out["integers"] = any(not isinstance(x, str) for x in labels)
    out["integers_mixed_with_strings"] = bool(strs) and len(strs) < len(labels)
    out["long"] = any(len(x) > 255 for x in strs)
    return out


@st.composite
def label_set(draw, n, plain_weight=3):
    """n labels, unique as Python objects, in drawn order.  {"style":..., "labels":[...]}"""
    style = draw(st.sampled_from(["plain"] * plain_weight + ["cluster", "cluster", "cluster", "two_clusters", "any", "text"]))
    plain = list(draw(st.permutations(NAME_POOL)))
    cand = []
    if style == "cluster":
        cand = list(draw(st.permutations(LABEL_CLUSTERS[draw(st.sampled_from(CLUSTER_NAMES))])))
        cand = cand[: draw(st.integers(2, 9))]
    elif style == "two_clusters":
        for _ in range(2):
            c = list(draw(st.permutations(LABEL_CLUSTERS[draw(st.sampled_from(CLUSTER_NAMES))])))
            cand += c[: draw(st.integers(2, 5))]
    elif style == "any":
        cand = list(draw(st.permutations([x for c in CLUSTER_NAMES for x in LABEL_CLUSTERS[c]])))[:n]
    elif style == "text":
        # drawn text, and variants of it that differ by padding / case / unicode normal form only
        base = draw(st.lists(st.text(TEXT_ALPHABET, max_size=6), min_size=1, max_size=4, unique=True))
        for _ in range(n):
            b = draw(st.sampled_from(base))
            op = draw(st.sampled_from(["asis", "asis", "pad", "pad", "pad", "upper", "lower", "swapcase", "NFD", "NFC", "twice", "cut"]))
            if op == "pad":
                b = draw(st.sampled_from(PADS)) + b + draw(st.sampled_from(PADS))
            elif op in ("upper", "lower", "swapcase"):
                b = getattr(b, op)()
            elif op in ("NFD", "NFC"):
                b = unicodedata.normalize(op, b)
            elif op == "twice":
                b = b + b
            elif op == "cut":
                b = b[:-1]
            cand.append(b)
    labels = []
    for x in cand + plain:                      # unique by Python equality (1 != "1", "A" != "A "), filled up with plain names
        if not any(type(x) is type(y) and x == y for y in labels) and len(labels) < n:
            labels.append(x)
    order = draw(st.permutations(list(range(n))))
    return {"style": style, "labels": [labels[i] for i in order]}


@st.composite
def trait_names(draw, t):
    if draw(st.integers(0, 2)) > 0:
        return TRAIT_POOL[:t]
    return list(draw(st.permutations(draw(st.sampled_from(TRAIT_CLUSTERS)))))[:t]


def label_classes(ctx, labels, prefix):
    for k, v in confusable(labels).items():
        ctx.label(prefix + k, v)


UVALS = [0.0, 0.5, -1.25, 2.0, 0.1, -0.3, 0.001, 3.7, -2.0, 1.0]
VARVALS = [0.0, 0.0, 0.25, 1.0, 4.0]


# ----------------------------------------------------------------------------------------------------------------
# generators (JSON only) and deterministic builders
# ----------------------------------------------------------------------------------------------------------------
@st.composite
def population(draw, nmin=1, nmax=8, names_required=False):
    n = draw(st.integers(nmin, nmax))
    p = draw(st.integers(1, 6))
    t = draw(st.integers(1, 3))
    geno = [[[draw(st.integers(0, 1)) for _ in range(p)] for _ in range(n)] for _ in range(2)]
    ls = draw(label_set(n))
    names, style = ls["labels"], ls["style"]
    if not names_required and draw(st.integers(0, 7)) == 0:
        names = None
    grp = [draw(st.integers(0, 3)) for _ in range(n)] if draw(st.booleans()) else None
    kind = draw(st.sampled_from(["A", "AD"]))
    beta = [draw(st.integers(-80, 80)) / 4.0 for _ in range(t)]
    u_a = [[draw(st.sampled_from(UVALS)) for _ in range(t)] for _ in range(p)]
    u_d = [[draw(st.sampled_from(UVALS)) for _ in range(t)] for _ in range(p)] if kind == "AD" else None
    trait = draw(trait_names(t)) if draw(st.booleans()) else None
    return {"geno": geno, "names": names, "label_style": style, "grp": grp, "kind": kind, "beta": beta, "u_a": u_a, "u_d": u_d,
            "trait": trait}


def build_population(pop):
    geno = numpy.array(pop["geno"], dtype="int8")
    pg = DensePhasedGenotypeMatrix(
        mat=geno.copy(),
        taxa=None if pop["names"] is None else numpy.array(pop["names"], dtype=object),
        taxa_grp=None if pop["grp"] is None else numpy.array(pop["grp"], dtype=int),
    )
    beta = numpy.array([pop["beta"]], dtype=float)
    u_a = numpy.array(pop["u_a"], dtype=float)
    trait = None if pop["trait"] is None else numpy.array(pop["trait"], dtype=object)
    if pop["kind"] == "A":
        gm = DenseAdditiveLinearGenomicModel(beta=beta, u_misc=None, u_a=u_a, trait=trait)
    else:
        gm = DenseAdditiveDominanceLinearGenomicModel(beta=beta, u_misc=None, u_a=u_a, u_d=numpy.array(pop["u_d"], dtype=float),
                                                      trait=trait)
    return pg, gm


def oracle_values(pop):
    """(g, a, S): true genotypic values, additive breeding values, sums of absolute terms; lists [taxon][trait]."""
    geno = pop["geno"]
    n, p, t = len(geno[0]), len(geno[0][0]), len(pop["beta"])
    g, a, S = [], [], []
    for i in range(n):
        gi, ai, si = [], [], []
        for k in range(t):
            terms_a = [pop["beta"][k]]
            terms_d = []
            for j in range(p):
                dos = geno[0][i][j] + geno[1][i][j]
                terms_a.append(dos * pop["u_a"][j][k])
                if pop["u_d"] is not None and dos == 1:
                    terms_d.append(pop["u_d"][j][k])
            ai.append(math.fsum(terms_a))
            gi.append(math.fsum(terms_a + terms_d))
            si.append(math.fsum(abs(x) for x in terms_a + terms_d))
        g.append(gi)
        a.append(ai)
        S.append(si)
    return g, a, S


def _selftest():
    pop = {"geno": [[[1, 0], [0, 0]], [[1, 1], [0, 1]]], "beta": [10.0], "u_a": [[2.0], [0.5]], "u_d": [[100.0], [7.0]]}
    g, a, S = oracle_values(pop)
    # taxon 0: dosages (2,1): a = 10 + 4 + 0.5 = 14.5, het at marker 1: g = 21.5 ; taxon 1: dosages (0,1): a = 10.5, g = 17.5
    assert a == [[14.5], [10.5]] and g == [[21.5], [17.5]] and S == [[21.5], [17.5]]
    assert exact_var([1.0, 2.0, 4.0]) == Fraction(14, 9)


def exact_var(xs):
    fs = [Fraction(x) for x in xs]
    mu = sum(fs) / len(fs)
    return sum((f - mu) ** 2 for f in fs) / len(fs)


_selftest()


def gtol(S, i, k):
    """|implementation value - oracle value| for taxon i, trait k: (p+2)-term dot product + the scaling round trip of gegv()."""
    smax = max(row[k] for row in S)
    nterms = 8
    return 16.0 * (nterms + 8) * EPS * (S[i][k] + smax) + 1e-300


def make_rng(spec):
    return numpy.random.default_rng(spec[1]) if spec[0] == "G" else numpy.random.RandomState(spec[1] % (2 ** 32))


def var_arg(spec, t):
    """None | scalar | per-trait list  ->  constructor argument"""
    if spec is None or isinstance(spec, (int, float)):
        return None if spec is None else float(spec)
    return numpy.array(spec[:t], dtype=float)


def var_vec(spec, t):
    if spec is None:
        return [0.0] * t
    if isinstance(spec, (int, float)):
        return [float(spec)] * t
    return [float(x) for x in spec[:t]]


@st.composite
def var_spec(draw, t):
    form = draw(st.sampled_from(["none", "scalar", "array", "array"]))
    if form == "none":
        return None
    if form == "scalar":
        return draw(st.sampled_from(VARVALS))
    return [draw(st.sampled_from(VARVALS)) for _ in range(t)]


ARR_KINDS = ["plain", "plain", "plain", "readonly", "strided", "float32"]
SHARES = [None, None, None, ["var_env", "var_err"], ["var_rep", "var_err"], ["var_env", "var_rep", "var_err"], ["var_env", "var_rep"]]
TAXA_DTYPES = ["default", "default", "object", "string", "category", "category_universe", "category_ordered"]
GRP_DTYPES = ["default", "default", "int32", "int8", "Int64", "category", "category_universe"]


def make_array(vals, kind):
    """legal ways of handing a (t,) vector of variances to the protocol"""
    vals = [float(x) for x in vals]
    if kind == "float32":                       # VARVALS / SVAR are exactly representable
        return numpy.array(vals, dtype="float32")
    if kind == "strided":                       # non-contiguous float64 view of a larger buffer
        buf = numpy.full(2 * len(vals) + 1, 7.0, dtype=float)
        view = buf[1::2]
        view[:] = vals
        return view
    arr = numpy.array(vals, dtype=float)
    if kind == "readonly":
        arr.setflags(write=False)
    return arr


def build_var_args(case, t):
    """{name: constructor argument}; the members of case['share'] receive the *same* ndarray object"""
    kind = case.get("arr_kind", "plain")
    share = case.get("share") or []
    out, shared = {}, None
    for nm in ("var_env", "var_rep", "var_err"):
        spec = case[nm]
        if spec is None or isinstance(spec, (int, float)):
            out[nm] = var_arg(spec, t)
        elif nm in share:
            if shared is None:
                shared = make_array(spec[:t], kind)
            out[nm] = shared
        else:
            out[nm] = make_array(spec[:t], kind)
    return out


def relabel(df, taxa_dtype, grp_dtype, taxa_universe, grp_universe, tcol="taxa", gcol="taxa_grp"):
    """The same table (same labels, same values, same row order) with its label columns stored differently."""
    if taxa_dtype == "string" and not all(isinstance(x, str) for x in taxa_universe):
        taxa_dtype = "object"                   # a "string" column cannot hold integer labels as they are
    if taxa_dtype == "default" and grp_dtype == "default":
        return df
    out = df.copy()
    if taxa_dtype == "object":
        out[tcol] = out[tcol].astype(object)
    elif taxa_dtype == "string":
        out[tcol] = out[tcol].astype("string")
    elif taxa_dtype == "category":
        out[tcol] = out[tcol].astype("category")
    elif taxa_dtype in ("category_universe", "category_ordered"):   # categories in universe order, unused ones included
        out[tcol] = pandas.Categorical(df[tcol].tolist(), categories=list(taxa_universe), ordered=(taxa_dtype == "category_ordered"))
    if gcol in out.columns and grp_dtype != "default":
        if grp_dtype == "category":
            out[gcol] = out[gcol].astype("category")
        elif grp_universe is not None:
            if grp_dtype == "category_universe":
                out[gcol] = pandas.Categorical(df[gcol].tolist(), categories=list(grp_universe))
            elif grp_dtype != "strlabel":
                out[gcol] = out[gcol].astype(grp_dtype)
    return out


INDEX_KINDS = ["range", "range", "shuffled", "strings", "dup", "dup", "stacked", "stacked", "allsame", "multi", "multi_dup",
               "taxa", "float_nan", "dates_dup", "categorical"]
DUP_INDEX_KINDS = ("dup", "stacked", "allsame", "multi_dup", "taxa", "float_nan", "dates_dup", "categorical")


@st.composite
def index_spec(draw):
    return {"kind": draw(st.sampled_from(INDEX_KINDS)), "raw": draw(st.lists(st.integers(0, 999), min_size=1, max_size=12)),
            "mod": draw(st.integers(1, 5))}


def row_labels(spec, n, taxa):
    """None (leave the index alone) or a pandas index of n row labels.  The row labels of a phenotype table carry no meaning
    for any of the protocols: the table is a bag of records identified by its taxa / env / rep columns."""
    kind = (spec or {}).get("kind", "range")
    if kind == "range" or n == 0:
        return None
    raw, mod = spec["raw"], spec["mod"]
    L = len(raw)
    cyc = [raw[r % L] for r in range(n)]
    order = sorted(range(n), key=lambda r: (cyc[r], r))
    perm = [0] * n
    for j, r in enumerate(order):
        perm[r] = j                                   # a permutation of 0..n-1
    small = [c % mod for c in cyc]                    # few distinct labels, repeated
    # tables of drawn lengths stacked on top of each other, each numbered from 0 (pandas.concat without ignore_index)
    chunk, pos, c, k, left = [], [], 0, 0, 1 + raw[0] % max(1, (n + 1) // 2)
    for r in range(n):
        if left == 0:
            c, k = c + 1, 0
            left = 1 + raw[c % L] % max(1, (n + 1) // 2)
        chunk.append(c)
        pos.append(k)
        k, left = k + 1, left - 1
    if kind == "shuffled":
        return pandas.Index([5 + 3 * x for x in perm])
    if kind == "strings":
        return pandas.Index(["r%03d" % x for x in perm], dtype=object)
    if kind == "dup":
        return pandas.Index(small)
    if kind == "stacked":
        return pandas.Index(pos)
    if kind == "allsame":
        return pandas.Index([0] * n)
    if kind == "multi":
        return pandas.MultiIndex.from_arrays([chunk, pos], names=["season", "plot"])
    if kind == "multi_dup":
        return pandas.MultiIndex.from_arrays([[x % 2 for x in cyc], small])
    if kind == "taxa":
        return pandas.Index(list(taxa), dtype=object)
    if kind == "float_nan":
        return pandas.Index([float("nan") if x == 0 else 0.5 * x for x in small], dtype=float)
    if kind == "dates_dup":
        return pandas.DatetimeIndex(["2024-05-%02d" % (1 + x) for x in small])
    if kind == "categorical":
        return pandas.CategoricalIndex(["p%d" % x for x in small])
    raise AssertionError(kind)


def with_row_labels(df, spec, tcol="taxa"):
    """The same records in the same order, the rows labelled as the case says."""
    idx = row_labels(spec, len(df), df[tcol].tolist())
    if idx is None:
        return df
    out = df.copy()
    out.index = idx
    return out


def has_repeated_row_labels(df):
    return not bool(df.index.is_unique)


@st.composite
def trial_case(draw):
    pop = draw(population())
    t = len(pop["beta"])
    nenv = draw(st.integers(1, 6))
    nrep = draw(st.one_of(st.integers(1, 4), st.lists(st.integers(1, 4), min_size=nenv, max_size=nenv)))
    ve, vr, vx = draw(var_spec(t)), draw(var_spec(t)), draw(var_spec(t))
    herit = None
    if draw(st.integers(0, 2)) == 0:
        which = draw(st.sampled_from(["h2", "H2"]))
        hv = st.sampled_from([1.0, 0.5, 0.25, 0.9, 0.1, 0.3333333333333333, 0.01])
        val = draw(st.one_of(hv, st.lists(hv, min_size=t, max_size=t)))
        herit = [which, val]
    rng = [draw(st.sampled_from(["G", "RS"])), draw(st.integers(0, 2 ** 31 - 1))]
    perm = draw(st.permutations(list(range(len(pop["geno"][0])))))
    case = {"pop": pop, "nenv": nenv, "nrep": nrep, "var_env": ve, "var_rep": vr, "var_err": vx, "herit": herit, "rng": rng,
            "gt_perm": list(perm)}
    # ---- how the (same) settings are handed over -------------------------------------------------------------------
    share = draw(st.sampled_from(SHARES))
    if share is not None:                       # one array object for several variance arguments => one value
        common = [draw(st.sampled_from(VARVALS)) for _ in range(t)]
        for nm in share:
            case[nm] = list(common)
    case["share"] = share
    case["arr_kind"] = draw(st.sampled_from(ARR_KINDS))
    case["via_setter"] = draw(st.integers(0, 4)) == 0       # variances assigned through the public setters after construction
    case["pre_use"] = draw(st.integers(0, 3)) == 0          # a trial is run before the heritability is set
    twin = None
    if draw(st.integers(0, 2)) == 0:            # a second protocol configured from the very same argument objects
        twin = {"which": draw(st.sampled_from(["h2", "H2"])), "h": draw(st.sampled_from([0.5, 0.25, 0.9, 1.0])),
                "when": draw(st.sampled_from(["before", "after"])), "use": draw(st.booleans()),
                "seed": draw(st.integers(0, 2 ** 31 - 1))}
    case["twin"] = twin
    case["taxa_dtype"] = draw(st.sampled_from(TAXA_DTYPES))
    case["grp_dtype"] = draw(st.sampled_from(GRP_DTYPES))
    # ---- the table handed to the breeding-value protocol: row labels, a second trial of a sub-list of the population stacked
    # underneath (with or without renumbering the rows), breeding values wanted for a sub-list of the taxa only
    case["row_index"] = draw(index_spec())
    case["season2"] = None
    if draw(st.integers(0, 2)) == 0:
        case["season2"] = {"taxa": draw(st.lists(st.integers(0, 7), min_size=1, max_size=8)), "ignore_index": draw(st.booleans())}
    case["gt_keep"] = draw(st.one_of(st.none(), st.integers(1, 8)))
    return case


# ----------------------------------------------------------------------------------------------------------------
# frame helpers
# ----------------------------------------------------------------------------------------------------------------
def frame_records(ctx, df, pop, pre):
    """Validate columns and return records [(taxon label, group, env, rep, [values])] in frame order (plain python)."""
    t = len(pop["beta"])
    ctx.check(isinstance(df, pandas.DataFrame), pre + "type", str(type(df)))
    cols = [str(c) for c in df.columns]
    tcols = list(pop["trait"]) if pop["trait"] is not None else [c for c in cols if c not in ("taxa", "taxa_grp", "env", "rep")]
    ok = ctx.check(all(c in cols for c in ["taxa", "env", "rep"] + tcols) and len(tcols) == t, pre + "columns",
                   lambda: "columns %s; expected taxa, taxa_grp, env, rep and %d trait columns %s" % (cols, t, pop["trait"]))
    if not ok:
        return None, tcols
    recs = []
    taxa = df["taxa"].tolist()
    grp = df["taxa_grp"].tolist() if "taxa_grp" in cols else [None] * len(taxa)
    env = df["env"].tolist()
    rep = df["rep"].tolist()
    vals = [df[c].tolist() for c in tcols]
    for r in range(len(taxa)):
        recs.append((taxa[r], grp[r], env[r], rep[r], [float(v[r]) for v in vals]))
    return recs, tcols


def isnone(x):
    return x is None or (isinstance(x, float) and math.isnan(x))


# ----------------------------------------------------------------------------------------------------------------
# sub-check 1: trial
# ----------------------------------------------------------------------------------------------------------------
def check_trial(case, ctx):
    pop = case["pop"]
    pg, gm = build_population(pop)
    geno_snap = pg.mat.copy()
    n, t = len(pop["geno"][0]), len(pop["beta"])
    names, grp = pop["names"], pop["grp"]
    g, a, S = oracle_values(pop)
    nenv = case["nenv"]
    nrep = case["nrep"] if isinstance(case["nrep"], list) else [case["nrep"]] * nenv
    nrep_arg = numpy.array(case["nrep"], dtype=int) if isinstance(case["nrep"], list) else int(case["nrep"])

    vargs = build_var_args(case, t)
    if case.get("via_setter"):
        pt = G_E_Phenotyping(gm, nenv, nrep_arg, var_env=None, var_rep=1.0, var_err=numpy.full(t, 2.0), rng=make_rng(case["rng"]))
        pt.var_err = vargs["var_err"]
        pt.var_env = vargs["var_env"]
        pt.var_rep = vargs["var_rep"]
    else:
        pt = G_E_Phenotyping(gm, nenv, nrep_arg, rng=make_rng(case["rng"]), **vargs)
    v_env, v_rep, v_err = var_vec(case["var_env"], t), var_vec(case["var_rep"], t), var_vec(case["var_err"], t)

    def stored_ok(want_err):
        return ([float(x) for x in pt.var_env] == v_env and [float(x) for x in pt.var_rep] == v_rep
                and (want_err is None or [float(x) for x in pt.var_err] == want_err) and [int(x) for x in pt.nrep] == nrep)

    ctx.check(stored_ok(v_err), "config.stored", lambda: "stored %s %s %s %s" % (pt.var_env, pt.var_rep, pt.var_err, pt.nrep))
    share = case.get("share")
    arrays = [nm for nm in ("var_env", "var_rep", "var_err") if isinstance(vargs[nm], numpy.ndarray)]
    ctx.label("same_array_for_several_variances", bool(share) and case.get("arr_kind") != "float32")
    ctx.label("same_array_for_error_and_other_variance_then_herit",
              bool(share) and "var_err" in share and case.get("arr_kind") != "float32" and case["herit"] is not None)
    ctx.label("variance_arrays_" + case.get("arr_kind", "plain"), bool(arrays))
    ctx.label("variances_via_setters", bool(case.get("via_setter")))

    # a second protocol configured from the very same argument objects (two trials from one settings block): setting *its*
    # heritability fixes *its* error variance; the variances requested of the first protocol are what they were
    twin = case.get("twin")
    pt2 = None
    if twin is not None:
        pt2 = G_E_Phenotyping(gm, nenv, nrep_arg, rng=numpy.random.default_rng(twin["seed"]), **vargs)

    def run_twin():
        (pt2.set_h2 if twin["which"] == "h2" else pt2.set_H2)(float(twin["h"]), pg)
        if twin["use"]:
            pt2.phenotype(pg)
        ctx.label("twin_protocol_heritability_set")
        ctx.label("twin_protocol_shares_error_variance_array", "var_err" in arrays and case.get("arr_kind") != "float32")

    if case.get("pre_use"):
        pt.phenotype(pg)
        ctx.check(stored_ok(v_err), "config.changed_by_trial", lambda: "stored %s %s %s" % (pt.var_env, pt.var_rep, pt.var_err))
        ctx.label("trial_run_before_heritability_set", case["herit"] is not None)
    if twin is not None and twin["when"] == "before":
        run_twin()
        ctx.check(stored_ok(v_err), "config.changed_by_other_protocol",
                  lambda: "after set_%s on a second protocol: stored %s %s %s, requested %s %s %s"
                  % (twin["which"], pt.var_env, pt.var_rep, pt.var_err, v_env, v_rep, v_err))

    # ---- heritability -> error variance ----------------------------------------------------------------------
    if case["herit"] is not None:
        which, hval = case["herit"]
        hvec = hval if isinstance(hval, list) else [hval] * t
        harg = numpy.array(hval, dtype=float) if isinstance(hval, list) else float(hval)
        (pt.set_h2 if which == "h2" else pt.set_H2)(harg, pg)
        src = a if which == "h2" else g
        ctx.check([float(x) for x in pt.var_env] == v_env and [float(x) for x in pt.var_rep] == v_rep, "herit.touched_other_variances")
        got = [float(x) for x in pt.var_err]
        ctx.check(len(got) == t, "herit.shape", str(got))
        for k in range(t):
            vg = exact_var([src[i][k] for i in range(n)])
            want = float((1 - Fraction(hvec[k])) / Fraction(hvec[k]) * vg)
            smax = max(S[i][k] for i in range(n))
            vtol = 64.0 * (n + 16) * EPS * smax * smax          # error of the implementation's variance of the values
            etol = (1.0 - hvec[k]) / hvec[k] * vtol + 1e-12 * want + 1e-300
            ctx.check(abs(got[k] - want) <= etol, "herit.error_variance",
                      lambda: "%s=%r trait %d: var_err=%r, expected (1-h)/h*var = %r (genetic var %r)" % (which, hvec[k], k, got[k], want, float(vg)))
            ctx.check(got[k] >= 0.0, "herit.negative")
            if hvec[k] == 1.0:
                ctx.check(got[k] == 0.0, "herit.one_means_no_error", lambda: "h=1 but var_err=%r" % got[k])
            if float(vg) > 0.0 and vtol <= 1e-7 * float(vg):
                ratio = float(vg) / (float(vg) + got[k])
                ctx.check(abs(ratio - hvec[k]) <= 1e-12 + 4.0 * vtol / float(vg), "herit.ratio",
                          lambda: "%s target %r trait %d: var_g/(var_g+var_err) = %r" % (which, hvec[k], k, ratio))
            ctx.label("herit_zero_genetic_variance", float(vg) == 0.0)
        # the requested error variance, per the oracle (a genetic variance of exactly 0 may come back as ~1e-32)
        v_err = [float((1 - Fraction(hvec[k])) / Fraction(hvec[k]) * exact_var([src[i][k] for i in range(n)])) for k in range(t)]
        ctx.label("herit_" + which)
        ctx.label("herit_AD_model", pop["kind"] == "AD")

    if twin is not None and twin["when"] == "after":
        before = [float(x) for x in pt.var_err]
        run_twin()
        ctx.check(stored_ok(None) and [float(x) for x in pt.var_err] == before, "config.changed_by_other_protocol",
                  lambda: "after set_%s on a second protocol: stored %s %s %s, were %s %s %s"
                  % (twin["which"], pt.var_env, pt.var_rep, pt.var_err, v_env, v_rep, before))

    # ---- the trial -----------------------------------------------------------------------------------------------
    df = pt.phenotype(pg)
    ctx.check(numpy.array_equal(pg.mat, geno_snap), "phenotype.mutated_genotypes")
    recs, tcols = frame_records(ctx, df, pop, "frame.")
    if recs is None:
        return
    nonlex = names is not None and names != sorted(names, key=sort_key)
    ctx.label("taxa_unlabelled", names is None)
    if names is not None:
        ctx.label("taxa_labels_" + pop.get("label_style", "plain"))
        label_classes(ctx, names, "taxa_labels_")
    if pop["trait"] is not None:
        ctx.label("trait_names_confusable", pop["trait"] != TRAIT_POOL[:t])
    ctx.label("taxa_non_lexicographic", nonlex)
    ctx.label("grouped", grp is not None)
    ctx.label("nrep_array", isinstance(case["nrep"], list))
    ctx.label("unequal_nrep", len(set(nrep)) > 1)
    ctx.label("rng_" + case["rng"][0])
    ctx.label("model_" + pop["kind"])
    allzero = [v_env[k] == 0.0 and v_rep[k] == 0.0 and v_err[k] == 0.0 for k in range(t)]
    ctx.label("all_noise_zero", all(allzero))
    ctx.label("some_trait_noise_free_some_noisy", any(allzero) and not all(allzero))
    ctx.nontrivial(n >= 3 and nonlex and sum(nrep) >= 2)

    total = n * sum(nrep)
    ctx.check(len(recs) == total, "record.count", lambda: "%d records, expected ntaxa*sum(nrep) = %d*%d" % (len(recs), n, sum(nrep)))

    # blocks keyed by (env, rep); every (taxon, env, rep) exactly once
    # env / rep labels are mapped to indices by sort order (the numbering base is not part of the property)
    envlabs = sorted(set(r[2] for r in recs))
    replabs = {e: sorted(set(r[3] for r in recs if r[2] == e)) for e in envlabs}
    ok = ctx.check(len(envlabs) == nenv and [len(replabs[e]) for e in envlabs] == nrep, "record.env_rep_grid",
                   lambda: "env labels %s with rep labels %s; expected %d environments with %s replicates"
                   % (envlabs, [replabs[e] for e in envlabs], nenv, nrep))
    if not ok:
        return
    blocks = {}
    for pos, (lab, gl, e, r, vals) in enumerate(recs):
        blocks.setdefault((envlabs.index(e) + 1, replabs[e].index(r) + 1), []).append((lab, gl, vals, pos))
    expected_blocks = set((e + 1, r + 1) for e in range(nenv) for r in range(nrep[e]))
    if names is not None:
        index = {nm: i for i, nm in enumerate(names)}
    first_labels = None
    resid = {}      # (env, rep) -> list over taxa index of residual vectors (value - oracle g)
    for key in sorted(blocks):
        rows = blocks[key]
        labs = [pylab(x[0]) for x in rows]
        if names is not None:
            ctx.check(same_labels(labs, names), "record.each_taxon_once_per_block",
                      lambda: "block %s holds taxa %r, population %r" % (key, labs, names))
            if not same_labels(labs, names):
                return
            order = [index[lb] for lb in labs]
        else:
            ctx.check(len(set(labs)) == n and len(labs) == n, "record.each_taxon_once_per_block",
                      lambda: "block %s holds %d records with labels %s, ntaxa %d" % (key, len(labs), labs, n))
            if first_labels is None:
                first_labels = labs
            ctx.check(labs == first_labels, "record.generated_labels_differ_between_blocks")
            if len(labs) != n:
                return
            order = list(range(n))          # no labels: the only identification is the position within the block
        res = [None] * n
        for (lab, gl, vals, pos), i in zip(rows, order):
            if grp is not None:
                ctx.check(not isnone(gl) and int(gl) == grp[i], "record.group_label",
                          lambda: "record %d: taxon %r group %r, expected %r" % (pos, lab, gl, grp[i]))
            else:
                ctx.check(isnone(gl), "record.group_label", lambda: "ungrouped population but group %r" % (gl,))
            res[i] = [vals[k] - g[i][k] for k in range(t)]
        resid[key] = res

    # ---- value structure, trait by trait -------------------------------------------------------------------------
    for k in range(t):
        tol = max(gtol(S, i, k) for i in range(n))
        noisetol = tol + 64.0 * EPS * (max(S[i][k] for i in range(n)) + 40.0)     # adding O(10) effects rounds at that magnitude
        if allzero[k]:
            for key, res in resid.items():
                for i in range(n):
                    ctx.check(abs(res[i][k]) <= gtol(S, i, k), "zero_noise.equals_truth",
                              lambda: "block %s taxon %d (%s) trait %d: record - true value = %r (tol %.3g); true %r"
                              % (key, i, None if names is None else names[i], k, res[i][k], gtol(S, i, k), g[i][k]))
            continue
        consts = {}
        for key, res in resid.items():
            col = [res[i][k] for i in range(n)]
            spread = max(col) - min(col)
            if v_err[k] == 0.0:
                ctx.check(spread <= 2.0 * noisetol, "structure.no_error_variance_but_taxa_differ_within_block",
                          lambda: "trait %d block %s: residuals %s" % (k, key, col))
                consts[key] = col[0]
            elif n >= 2 and math.sqrt(v_err[k]) > 1e6 * noisetol:
                ctx.check(spread > 2.0 * noisetol, "structure.error_not_drawn_per_taxon",
                          lambda: "trait %d block %s var_err=%r: all taxa got the same error %s" % (k, key, v_err[k], col[:4]))
        if v_err[k] == 0.0 and set(consts) == expected_blocks:
            for e in range(nenv):
                cs = [consts[(e + 1, r + 1)] for r in range(nrep[e])]
                if v_rep[k] == 0.0:
                    ctx.check(max(cs) - min(cs) <= 2.0 * noisetol, "structure.env_effect_not_shared_by_reps",
                              lambda: "trait %d env %d var_rep=0: block offsets %s" % (k, e + 1, cs))
                elif len(cs) >= 2:
                    ctx.check(len(set(cs)) == len(cs), "structure.rep_effect_not_drawn_per_rep",
                              lambda: "trait %d env %d var_rep=%r: block offsets %s" % (k, e + 1, v_rep[k], cs))
            if v_rep[k] == 0.0:
                es = [consts[(e + 1, 1)] for e in range(nenv)]
                if v_env[k] == 0.0:
                    pass    # allzero handled above
                elif nenv >= 2:
                    ctx.check(len(set(es)) == nenv, "structure.env_effect_not_drawn_per_env",
                              lambda: "trait %d var_env=%r: env offsets %s" % (k, v_env[k], es))
                if v_env[k] == 0.0:
                    ctx.check(max(abs(x) for x in es) <= 2.0 * noisetol, "structure.offset_without_variance")
            ctx.label("error_free_trait_with_block_effects")

    # ---- mean-phenotype breeding values on this table, aligned to a permuted genotype matrix ---------------------
    if names is not None:
        perm = [i % n for i in case["gt_perm"]][:n]
        if case.get("gt_keep") is not None:                 # breeding values wanted for a sub-list of the taxa only
            perm = perm[: 1 + (case["gt_keep"] - 1) % n]
        gt = pg.select_taxa(perm)
        bvp = MeanPhenotypicBreedingValue("taxa", "taxa_grp" if grp is not None else None, tcols)
        # the table of the programme so far: this trial, optionally with a second trial of a sub-list of the population
        # stacked underneath (pandas.concat keeps each table's own row numbers unless told otherwise)
        table = df
        s2 = case.get("season2")
        if s2 is not None:
            sel2 = []
            for x in s2["taxa"]:
                if x % n not in sel2:
                    sel2.append(x % n)
            df2 = pt.phenotype(pg.select_taxa(sel2))
            ctx.check(len(df2) == len(sel2) * sum(nrep), "record.count",
                      lambda: "second trial: %d records, expected %d*%d" % (len(df2), len(sel2), sum(nrep)))
            table = pandas.concat([df, df2], ignore_index=bool(s2["ignore_index"]))
            ctx.label("two_trials_stacked")
            ctx.label("two_trials_stacked_keeping_row_numbers", not s2["ignore_index"])
        # the same table with its label columns stored as the case says (object / string / categorical ...) and its rows
        # labelled as the case says
        tdt, gdt = case.get("taxa_dtype", "default"), case.get("grp_dtype", "default")
        dfl = relabel(table, tdt, gdt, names, None if grp is None else [3, 0, 2, 1, 5])
        dfl = with_row_labels(dfl, case.get("row_index"))
        ctx.label("trial_table_categorical_labels", tdt.startswith("category") or gdt.startswith("category"))
        ctx.label("trial_table_categorical_labels_multi_family",
                  (tdt.startswith("category") or gdt.startswith("category")) and grp is not None and len(set(grp)) >= 2)
        ctx.label("trial_table_row_index_" + (case.get("row_index") or {}).get("kind", "range"))
        ctx.label("trial_table_repeated_row_labels", has_repeated_row_labels(dfl))
        ctx.label("trial_table_repeated_row_labels_and_taxa_not_in_genotypes", has_repeated_row_labels(dfl) and len(set(perm)) < n)
        ctx.label("breeding_values_for_sub_list_of_taxa", len(set(perm)) < n)
        # the records of every taxon, read off the table by position (python lists), keyed by taxon label
        byname = {}
        tlabs = [pylab(x) for x in dfl["taxa"].tolist()]
        tvals = [[float(x) for x in dfl[c].tolist()] for c in tcols]
        for r, lb in enumerate(tlabs):
            byname.setdefault(lb, []).append([tv[r] for tv in tvals])
        est = bvp.estimate(dfl, gt)
        u = est.unscale()
        ctx.check(type(est) is DenseEstimatedBreedingValueMatrix, "meanbv.type", str(type(est)))
        ctx.check(list(est.taxa) == [names[i] for i in perm], "meanbv.taxa_order",
                  lambda: "taxa %r, genotype matrix %r" % (list(est.taxa), [names[i] for i in perm]))
        ctx.check(list(est.trait) == tcols, "meanbv.trait_names", lambda: "%s vs %s" % (list(est.trait), tcols))
        if grp is not None:
            ctx.check(est.taxa_grp is not None and [int(x) for x in est.taxa_grp] == [grp[i] for i in perm], "meanbv.taxa_grp")
        nrec = sum(nrep)
        for row, i in enumerate(perm):
            for k in range(t):
                vals = [v[k] for v in byname[names[i]]]
                want = math.fsum(vals) / len(vals)
                scale = max(abs(v) for v in vals) + max(abs(x) for x in numpy.nan_to_num(u[:, k]).tolist())
                ctx.check(abs(float(u[row, k]) - want) <= 16.0 * (len(vals) + 8) * EPS * scale + 1e-300, "meanbv.mean_of_records",
                          lambda: "taxon %r trait %d: breeding value %r, mean of its %d records %r" % (names[i], k, float(u[row, k]), len(vals), want))
                if allzero[k]:
                    ctx.check(abs(float(u[row, k]) - g[i][k]) <= 4.0 * gtol(S, i, k) + 16.0 * (len(vals) + 8) * EPS * scale,
                              "meanbv.zero_noise_equals_truth",
                              lambda: "taxon %r trait %d: breeding value %r, true value %r" % (names[i], k, float(u[row, k]), g[i][k]))

        # the table G_E_Phenotyping produces always has a "taxa_grp" column (all missing for an ungrouped population) and
        # the documented usage passes taxa_grp_col="taxa_grp": every taxon is phenotyped, none may be reported missing
        if grp is None:
            ctx.label("ungrouped_population_with_group_column")
            if not ctx.known("F-C14-a", True):
                est2 = MeanPhenotypicBreedingValue("taxa", "taxa_grp", tcols).estimate(dfl, gt)
                u2 = est2.unscale()
                ctx.check(u2.shape == u.shape and not bool(numpy.isnan(u2).any()), "meanbv.ungrouped_table_with_group_column",
                          lambda: "population without groups, taxa_grp_col='taxa_grp': breeding values %s although every taxon "
                          "has >= %d records" % (u2.tolist(), nrec))
                if u2.shape == u.shape and not numpy.isnan(u2).any():
                    ctx.check(bool(numpy.allclose(u2, u, rtol=1e-12, atol=1e-12)), "meanbv.group_column_changes_values")

    # ---- true phenotyping / true breeding values ---------------------------------------------------------------
    tdf = TruePhenotyping(gm).phenotype(pg)
    cols = [str(c) for c in tdf.columns]
    ctx.check(len(tdf) == n and "taxa" in cols and all(c in cols for c in tcols), "truepheno.one_record_per_taxon",
              lambda: "%d records, columns %s" % (len(tdf), cols))
    if len(tdf) == n and "taxa" in cols and all(c in cols for c in tcols):
        labs = [pylab(x) for x in tdf["taxa"].tolist()]
        if names is not None:
            ctx.check(same_labels(labs, names), "truepheno.labels", lambda: "%r vs %r" % (labs, names))
            order = [names.index(lb) if lb in names else 0 for lb in labs]
        else:
            order = list(range(n))
        if grp is not None:
            ctx.check("taxa_grp" in cols and [int(x) for x in tdf["taxa_grp"].tolist()] == [grp[i] for i in order], "truepheno.group_label")
        for row, i in enumerate(order):
            for k in range(t):
                v = float(tdf[tcols[k]].tolist()[row])
                ctx.check(abs(v - g[i][k]) <= gtol(S, i, k), "truepheno.equals_truth",
                          lambda: "taxon %d trait %d: %r vs true genotypic value %r" % (i, k, v, g[i][k]))
    tb = TrueBreedingValue(gm).estimate(df, pg)
    ub = tb.unscale()
    ctx.check(ub.shape == (n, t), "truebv.shape", str(ub.shape))
    if ub.shape == (n, t):
        if names is not None:
            ctx.check(list(tb.taxa) == names, "truebv.taxa_order", lambda: "%r vs %r" % (list(tb.taxa), names))
        if grp is not None:
            ctx.check(tb.taxa_grp is not None and [int(x) for x in tb.taxa_grp] == grp, "truebv.taxa_grp")
        if pop["trait"] is not None:
            ctx.check(list(tb.trait) == pop["trait"], "truebv.trait_names")
        for i in range(n):
            for k in range(t):
                ctx.check(abs(float(ub[i, k]) - a[i][k]) <= gtol(S, i, k), "truebv.equals_additive_truth",
                          lambda: "taxon %d trait %d: %r vs true breeding value %r (genotypic %r)" % (i, k, float(ub[i, k]), a[i][k], g[i][k]))


# ----------------------------------------------------------------------------------------------------------------
# sub-check 2: mean-phenotype breeding values on hand-built tables
# ----------------------------------------------------------------------------------------------------------------
@st.composite
def meanbv_case(draw):
    nuni = draw(st.one_of(st.integers(1, 9), st.integers(4, 9)))
    ls = draw(label_set(nuni, plain_weight=2))
    names = ls["labels"]
    grp = [draw(st.integers(0, 3)) for _ in range(nuni)]
    use_grp = draw(st.booleans())
    t = draw(st.integers(1, 3))
    tcols = draw(trait_names(t))
    colset = draw(st.sampled_from(COLUMN_SETS))
    grp_labels = draw(st.sampled_from(["int", "int", "str"]))      # "str": family labels of the table are strings (joined tables only)
    # records per universe taxon (0 = unphenotyped)
    counts = [draw(st.sampled_from([0, 1, 2, 2, 3, 5])) for _ in range(nuni)]
    if sum(counts) == 0:
        counts[draw(st.integers(0, nuni - 1))] = 2
    offset = draw(st.sampled_from([0.0, 0.0, 100.0, 1e6]))
    rows = []
    for i, c in enumerate(counts):
        for _ in range(c):
            rows.append([i] + [offset + draw(st.integers(-5000, 5000)) / 100.0 for _ in range(t)])
    rowperm = list(draw(st.permutations(list(range(len(rows))))))
    rowperm2 = list(draw(st.permutations(list(range(len(rows))))))
    # genotype matrix: a non-empty list of universe taxa in arbitrary order (subset: table may hold extra taxa)
    gt = list(draw(st.permutations(list(range(nuni)))))[: draw(st.integers(1, nuni))]
    mode = draw(st.sampled_from(["gt", "gt", "gt", "none"]))
    gtkind = draw(st.sampled_from(["phased", "unphased"]))
    # storage of the label columns (same labels, same values) and the category order of the family labels
    taxa_dtype = draw(st.sampled_from(TAXA_DTYPES))
    grp_dtype = draw(st.sampled_from(GRP_DTYPES))
    grp_cats = list(draw(st.permutations([0, 1, 2, 3, 5])))
    # row labels of the two tables (same records): the labels are attached to the row *positions* after the rows were permuted
    row_index, row_index2 = draw(index_spec()), draw(index_spec())
    return {"label_style": ls["style"], "columns": colset, "grp_labels": grp_labels,
            "row_index": row_index, "row_index2": row_index2, "names": names, "grp": grp, "use_grp": use_grp, "tcols": tcols, "rows": rows, "rowperm": rowperm,
            "rowperm2": rowperm2, "gt": gt, "mode": mode, "gtkind": gtkind, "taxa_dtype": taxa_dtype, "grp_dtype": grp_dtype,
            "grp_cats": grp_cats}


def check_meanbv(case, ctx):
    names, grp, tcols, rows = case["names"], case["grp"], case["tcols"], case["rows"]
    t = len(tcols)
    use_grp = case["use_grp"]
    tdt, gdt = case.get("taxa_dtype", "default"), case.get("grp_dtype", "default")
    tcol, gcol, decoys = case.get("columns") or ["taxa", "taxa_grp", []]
    # family labels of the table: the integers of the genotype matrix, or (a table that is only joined onto a genotype matrix,
    # where the family column is only grouped on) strings standing for them
    strgrp = use_grp and case.get("grp_labels") == "str" and case["mode"] == "gt"
    gmap = GRP_STR if strgrp else {g: g for g in (0, 1, 2, 3, 5)}
    if strgrp and not gdt.startswith("category"):
        gdt = "default"
    nuni = len(names)

    def frame(order, rix):
        data = {tcol: [names[rows[r][0]] for r in order]}
        if use_grp:
            data[gcol] = [gmap[grp[rows[r][0]]] for r in order]
        data["env"] = [1 + (r % 3) for r in order]
        for k, c in enumerate(tcols):
            data[c] = [rows[r][1 + k] for r in order]
        # decoy columns named almost like the label columns, holding the labels of *other* taxa / families
        for j, d in enumerate(decoys):
            if "grp" in d.lower():
                data[d] = [(grp[rows[r][0]] + 1 + j) % 4 for r in order]
            else:
                data[d] = [names[(rows[r][0] + 1 + j) % nuni] for r in order]
        # universe order of the taxa = `names` (includes taxa without any record: unused categories)
        df = pandas.DataFrame(data)
        assert list(df.columns) == list(data)
        return with_row_labels(relabel(df, tdt, gdt, names, [gmap[g] for g in case.get("grp_cats", [0, 1, 2, 3, 5])], tcol, gcol),
                               rix, tcol)

    def gtobj():
        sel = case["gt"]
        taxa = numpy.array([names[i] for i in sel], dtype=object)
        tg = numpy.array([grp[i] for i in sel], dtype=int) if use_grp else None
        if case["gtkind"] == "phased":
            return DensePhasedGenotypeMatrix(numpy.zeros((2, len(sel), 2), dtype="int8"), taxa=taxa, taxa_grp=tg)
        return DenseGenotypeMatrix(numpy.zeros((len(sel), 2), dtype="int8"), taxa=taxa, taxa_grp=tg, ploidy=2)

    recs = {}
    for r in rows:
        recs.setdefault(r[0], []).append(r[1:])
    means = {i: [math.fsum(v[k] for v in vs) / len(vs) for k in range(t)] for i, vs in recs.items()}
    amax = max(abs(x) for r in rows for x in r[1:])
    maxrec = max(len(v) for v in recs.values())
    tol = 16.0 * (maxrec + 8) * EPS * 2.0 * amax + 1e-300

    bvp = MeanPhenotypicBreedingValue(tcol, gcol if use_grp else None, tcols if t > 1 else tcols[0])
    df1, df2 = frame(case["rowperm"], case.get("row_index")), frame(case["rowperm2"], case.get("row_index2"))
    snap = df1.copy(deep=True)
    sel = case["gt"]
    missing = [i for i in sel if i not in recs]
    extra = [i for i in recs if i not in sel]
    gtnames = [names[i] for i in sel]
    ctx.label("mode_" + case["mode"])
    ctx.label("unphenotyped_taxon_in_genotypes", bool(missing) and case["mode"] == "gt")
    ctx.label("table_has_taxa_not_in_genotypes", bool(extra) and case["mode"] == "gt")
    ctx.label("genotype_order_non_lexicographic", gtnames != sorted(gtnames, key=sort_key))
    ctx.label("taxa_labels_" + case.get("label_style", "plain"))
    label_classes(ctx, names, "taxa_labels_")
    in_both = [names[i] for i in sel if i in recs]
    ctx.label("phenotyped_genotyped_taxon_with_edge_white_space",
              case["mode"] == "gt" and any(isinstance(x, str) and x != x.strip() for x in in_both))
    ctx.label("trait_names_confusable", tcols != TRAIT_POOL[:t])
    ctx.label("label_columns_renamed", [tcol, gcol] != ["taxa", "taxa_grp"])
    ctx.label("decoy_label_columns", bool(decoys))
    ctx.label("family_labels_strings", strgrp)
    ctx.label("grouped", use_grp)
    ctx.label("all_unphenotyped", case["mode"] == "gt" and len(missing) == len(sel))
    nfam = len(set(grp[i] for i in recs))
    cat = tdt.startswith("category") or (use_grp and gdt.startswith("category"))
    ctx.label("taxa_column_" + tdt)
    ctx.label("family_column_" + gdt, use_grp)
    ctx.label("categorical_labels", cat)
    ctx.label("categorical_labels_grouped_multi_family", cat and use_grp and nfam >= 2)
    ctx.label("categorical_with_unused_categories",
              (tdt in ("category_universe", "category_ordered") and len(recs) < len(names)) or (use_grp and gdt == "category_universe"))
    rk = (case.get("row_index") or {}).get("kind", "range")
    rep1, rep2 = has_repeated_row_labels(df1), has_repeated_row_labels(df2)
    ctx.label("row_index_" + rk)
    ctx.label("repeated_row_labels", rep1)
    ctx.label("repeated_row_labels_and_table_has_taxa_not_in_genotypes", rep1 and bool(extra) and case["mode"] == "gt")
    ctx.label("repeated_row_labels_no_genotype_matrix", rep1 and case["mode"] == "none")
    ctx.label("two_tables_differ_in_row_index_kind", rk != (case.get("row_index2") or {}).get("kind", "range"))
    ctx.label("row_labels_repeated_in_one_table_unique_in_the_other", rep1 != rep2)
    ctx.nontrivial(len(sel) >= 3 and gtnames != sorted(gtnames, key=sort_key) and maxrec >= 2 and bool(missing) and case["mode"] == "gt")

    if case["mode"] == "gt":
        gt = gtobj()
        e1 = bvp.estimate(df1, gt)
        e2 = bvp.estimate(df2, gt)
        ctx.check(df1.equals(snap), "estimate.mutated_table")
        ctx.check(type(e1) is DenseEstimatedBreedingValueMatrix, "type", str(type(e1)))
        u1, u2 = e1.unscale(), e2.unscale()
        ctx.check(u1.shape == (len(sel), t), "shape", str(u1.shape))
        ctx.check(list(e1.taxa) == gtnames, "aligned.taxa_order", lambda: "taxa %r; genotype matrix %r" % (list(e1.taxa), gtnames))
        ctx.check(list(e1.trait) == tcols, "trait_names", lambda: str(list(e1.trait)))
        if use_grp:
            ctx.check(e1.taxa_grp is not None and [int(x) for x in e1.taxa_grp] == [grp[i] for i in sel], "aligned.taxa_grp")
        else:
            ctx.check(e1.taxa_grp is None, "aligned.taxa_grp")
        for row, i in enumerate(sel):
            for k in range(t):
                x1, x2 = float(u1[row, k]), float(u2[row, k])
                if i in recs:
                    ctx.check(not math.isnan(x1), "phenotyped_taxon_reported_missing",
                              lambda: "taxon %r has %d records but its breeding value is NaN" % (names[i], len(recs[i])))
                    ctx.check(abs(x1 - means[i][k]) <= tol, "aligned.mean_of_records",
                              lambda: "row %d taxon %r trait %s: breeding value %r; mean of its records %r (records %s)"
                              % (row, names[i], tcols[k], x1, means[i][k], [v[k] for v in recs[i]]))
                    ctx.check(abs(x1 - x2) <= 2.0 * tol, "row_order_invariance",
                              lambda: "taxon %r trait %s: %r vs %r after permuting the table rows" % (names[i], tcols[k], x1, x2))
                else:
                    ctx.check(math.isnan(x1) and math.isnan(x2), "unphenotyped_taxon_not_missing",
                              lambda: "taxon %r has no record but breeding value %r" % (names[i], x1))
    else:
        e1 = bvp.estimate(df1)
        e2 = bvp.estimate(df2)
        ctx.check(type(e1) is DenseEstimatedBreedingValueMatrix, "type", str(type(e1)))
        u1, u2 = e1.unscale(), e2.unscale()
        labs = [pylab(x) for x in e1.taxa]
        intable = [names[i] for i in recs]
        ctx.check(same_labels(labs, intable) and u1.shape == (len(recs), t), "nogt.taxa_set",
                  lambda: "taxa %r; taxa in the table %r" % (labs, intable))
        ctx.check(list(e1.trait) == tcols, "trait_names", lambda: str(list(e1.trait)))
        ctx.check([pylab(x) for x in e2.taxa] == labs, "nogt.row_order_changes_taxa_order")
        if same_labels(labs, intable) and u1.shape == (len(recs), t):
            for row, lb in enumerate(labs):
                i = names.index(lb)
                if use_grp:
                    ctx.check(e1.taxa_grp is not None and int(e1.taxa_grp[row]) == grp[i], "nogt.taxa_grp")
                for k in range(t):
                    ctx.check(abs(float(u1[row, k]) - means[i][k]) <= tol, "nogt.mean_of_records",
                              lambda: "taxon %r trait %s: %r vs %r" % (lb, tcols[k], float(u1[row, k]), means[i][k]))
                    ctx.check(abs(float(u1[row, k]) - float(u2[row, k])) <= 2.0 * tol, "row_order_invariance")


# ----------------------------------------------------------------------------------------------------------------
# sub-check 3: statistical calibration of the three variance components
# ----------------------------------------------------------------------------------------------------------------
SVAR = [0.0, 0.25, 1.0, 1.0, 4.0, 9.0]


@st.composite
def stats_case(draw):
    shape = draw(st.sampled_from(["many_env", "env_focus", "many_taxa"]))
    t = draw(st.integers(1, 2))
    if shape == "env_focus":
        n = 2
        nenv = draw(st.integers(4000, 6000))
        nrep = 1
    elif shape == "many_env":
        n = draw(st.integers(2, 4))
        nenv = draw(st.integers(800, 1600))
        nrep = draw(st.sampled_from([1, 2, [1, 2], [2, 3], [1, 1, 3]]))
    else:
        n = draw(st.integers(60, 110))
        nenv = draw(st.integers(20, 50))
        nrep = draw(st.sampled_from([2, 3, [1, 2], [2, 4]]))
    p = 4
    seed = draw(st.integers(0, 2 ** 31 - 1))
    kind = draw(st.sampled_from(["A", "AD"]))
    ve = [draw(st.sampled_from(SVAR)) for _ in range(t)]
    vr = [draw(st.sampled_from(SVAR)) for _ in range(t)]
    vx = [draw(st.sampled_from(SVAR)) for _ in range(t)]
    if shape == "env_focus":        # environment variance dominates the environment means
        ve = [draw(st.sampled_from([1.0, 4.0, 9.0])) for _ in range(t)]
        vr = [draw(st.sampled_from([0.0, 0.25])) for _ in range(t)]
        vx = [draw(st.sampled_from([0.0, 0.25])) for _ in range(t)]
    herit = draw(st.sampled_from([None, None, ["h2", 0.5], ["H2", 0.25], ["h2", 0.8]])) if shape != "env_focus" else None
    rng = [draw(st.sampled_from(["G", "RS"])), draw(st.integers(0, 2 ** 31 - 1))]
    case = {"shape": shape, "n": n, "nenv": nenv, "nrep": nrep, "p": p, "t": t, "seed": seed, "kind": kind,
            "var_env": ve, "var_rep": vr, "var_err": vx, "herit": herit, "rng": rng}
    # one array object handed over for several variance arguments (hence one value); the error variance may then be replaced
    # through a heritability: the environment / replicate variances requested stay what they were
    share = draw(st.sampled_from(SHARES)) if shape != "env_focus" else None
    if share is not None:
        for nm in share:
            case[nm] = list(case[share[0]])
    case["share"] = share
    case["arr_kind"] = draw(st.sampled_from(ARR_KINDS))
    return case


def chi2_bounds(df):
    return float(sstats.chi2.ppf(ALPHA_TEST / 2.0, df)), float(sstats.chi2.isf(ALPHA_TEST / 2.0, df))


def check_stats(case, ctx):
    n, p, t, nenv = case["n"], case["p"], case["t"], case["nenv"]
    # population and model derived deterministically from the case seed (no pybrops code involved)
    r0 = numpy.random.default_rng(case["seed"])
    geno = r0.integers(0, 2, size=(2, n, p)).tolist()
    names = ["T%04d" % ((i * 7919 + 13) % 10007) for i in range(n)]      # unique, not sorted
    pop = {"geno": geno, "names": names, "grp": None, "kind": case["kind"], "beta": [5.0, -2.0][:t],
           "u_a": [[UVALS[(3 * j + 2 * k + 1) % len(UVALS)] for k in range(t)] for j in range(p)],
           "u_d": [[UVALS[(5 * j + k + 2) % len(UVALS)] for k in range(t)] for j in range(p)] if case["kind"] == "AD" else None,
           "trait": TRAIT_POOL[:t]}
    pg, gm = build_population(pop)
    g, a, S = oracle_values(pop)
    nrep_pat = case["nrep"]
    nrep = [nrep_pat] * nenv if isinstance(nrep_pat, int) else [nrep_pat[e % len(nrep_pat)] for e in range(nenv)]
    pt = G_E_Phenotyping(gm, nenv, numpy.array(nrep, dtype=int) if not isinstance(nrep_pat, int) else int(nrep_pat),
                         rng=make_rng(case["rng"]), **build_var_args(case, t))
    ctx.label("same_array_for_several_variances", bool(case.get("share")) and case.get("arr_kind") != "float32")
    ctx.label("same_array_for_error_and_other_variance_then_herit", bool(case.get("share")) and "var_err" in case["share"]
              and case.get("arr_kind") != "float32" and case["herit"] is not None)
    v_env, v_rep, v_err = list(case["var_env"]), list(case["var_rep"]), list(case["var_err"])
    if case["herit"] is not None:
        which, h = case["herit"]
        (pt.set_h2 if which == "h2" else pt.set_H2)(float(h), pg)
        src = a if which == "h2" else g
        # requested error variance according to the *oracle* genetic variance, not according to the object
        v_err = [float((1 - Fraction(h)) / Fraction(h) * exact_var([src[i][k] for i in range(n)])) for k in range(t)]
        ctx.label("error_variance_from_heritability")
    df = pt.phenotype(pg)
    ctx.label("shape_" + case["shape"])
    ctx.label("unequal_nrep", len(set(nrep)) > 1)
    ctx.label("rng_" + case["rng"][0])
    ctx.nontrivial(True)

    total = n * sum(nrep)
    if not ctx.check(len(df) == total, "record.count", "%d vs %d" % (len(df), total)):
        return
    index = {nm: i for i, nm in enumerate(names)}
    ti = numpy.array([index[str(x)] for x in df["taxa"].tolist()], dtype=int)
    env = numpy.unique(df["env"].to_numpy(), return_inverse=True)[1].astype(int) + 1      # labels -> 1..nenv by sort order
    rep = df["rep"].to_numpy().astype(int)
    rep = rep - int(rep.min()) + 1
    # block id from the labels (env, rep), not from the position
    start = numpy.concatenate([[0], numpy.cumsum(nrep)])[:-1]
    ok = ctx.check(bool(((env >= 1) & (env <= nenv)).all()) and bool((rep >= 1).all())
                   and bool((rep <= numpy.array(nrep)[numpy.clip(env, 1, nenv) - 1]).all()), "record.env_rep_grid")
    if not ok:
        return
    bid = start[env - 1] + (rep - 1)
    B = int(sum(nrep))
    cnt = numpy.zeros((B, n), dtype=int)
    numpy.add.at(cnt, (bid, ti), 1)
    if not ctx.check(bool((cnt == 1).all()), "record.each_taxon_once_per_block"):
        return
    G = numpy.array(g, dtype=float)
    benv = numpy.repeat(numpy.arange(nenv), nrep)          # block -> env index
    R = numpy.array(nrep, dtype=float)
    for k in range(t):
        y = df[pop["trait"][k]].to_numpy().astype(float)
        res = numpy.empty((B, n), dtype=float)
        res[bid, ti] = y - G[ti, k]
        dettol = 1e-9       # |record - truth| when every contributing variance is zero (values are O(10))
        # (i) within-block: sum (r - block mean)^2 ~ var_err * chi2(B (n-1))
        bm = res.mean(axis=1)
        ssw = float(((res - bm[:, None]) ** 2).sum())
        dfw = B * (n - 1)
        if v_err[k] == 0.0:
            ctx.check(ssw <= B * n * dettol ** 2, "stats.error_variance_zero_but_noise", lambda: "trait %d SSW=%r" % (k, ssw))
        else:
            lo, hi = chi2_bounds(dfw)
            ctx.check(lo <= ssw / v_err[k] <= hi, "stats.error_variance",
                      lambda: "trait %d: within-block SS / var_err = %r outside [%r, %r] (df %d): realised %r requested %r"
                      % (k, ssw / v_err[k], lo, hi, dfw, ssw / dfw, v_err[k]))
        # (ii) replicate means within environment: ~ (var_rep + var_err/n) * chi2(sum (R_e - 1))
        esum = numpy.zeros(nenv)
        numpy.add.at(esum, benv, bm)
        em = esum / R
        ssr = float(((bm - em[benv]) ** 2).sum())
        dfr = int(sum(nrep) - nenv)
        vrep = v_rep[k] + v_err[k] / n
        if dfr > 0:
            if vrep == 0.0:
                ctx.check(ssr <= B * dettol ** 2, "stats.rep_variance_zero_but_noise", lambda: "trait %d SSR=%r" % (k, ssr))
            else:
                lo, hi = chi2_bounds(dfr)
                ctx.check(lo <= ssr / vrep <= hi, "stats.rep_variance",
                          lambda: "trait %d: between-rep-within-env SS / (var_rep + var_err/n) = %r outside [%r, %r] (df %d): "
                          "realised %r requested %r" % (k, ssr / vrep, lo, hi, dfr, ssr / dfr, vrep))
        # (iii) environment means (known zero mean): sum em_e^2 / (var_env + (var_rep + var_err/n)/R_e) ~ chi2(nenv)
        venv = v_env[k] + vrep / R
        if float(venv.max()) == 0.0:
            ctx.check(float(numpy.abs(em).max()) <= dettol, "stats.env_variance_zero_but_noise")
        else:
            z = float((em ** 2 / venv).sum())
            lo, hi = chi2_bounds(nenv)
            ctx.check(lo <= z <= hi, "stats.env_variance",
                      lambda: "trait %d: sum env-mean^2 / (var_env + (var_rep + var_err/n)/nrep) = %r outside [%r, %r] (df %d); "
                      "requested var_env %r" % (k, z, lo, hi, nenv, v_env[k]))


LABEL_CONTENT_LABELS = tuple("taxa_labels_" + k for k in (
    "edge_white_space", "collide_after_strip", "collide_after_removing_white_space", "collide_after_casefold",
    "collide_after_unicode_normalisation", "collide_as_numbers", "collide_after_str", "collide_in_first_255_characters",
    "one_is_prefix_of_another", "empty_or_blank", "missing_value_word", "numeric_looking_string", "non_ascii", "integers",
    "integers_mixed_with_strings", "long", "text", "cluster", "two_clusters", "any", "plain")) + ("trait_names_confusable",)

SUBCHECKS = [
    SubCheck("trial", check_trial, trial_case(), quick=800, thorough=3000, shards_quick=4,
             rule="generated population (1-8 taxa with permuted non-sorted labels of drawn contents -- plain names, clusters of "
                  "confusable labels, drawn text with padded / case / normal-form variants, integers, integers mixed with strings -- or none, optional groups, 1-6 markers, additive or "
                  "additive+dominance model, 1-3 traits) x trial (nenv 1-6, nrep scalar/array 1-4, variances None/scalar/array "
                  "from {0,.25,1,4}, optional set_h2/set_H2, Generator or RandomState); the table handed to MeanPhenotypicBreedingValue optionally has a second trial "
                  "of a sub-list of the taxa stacked underneath, drawn row labels, and the genotype matrix lists a sub-list; non-trivial = >= 3 taxa in "
                  "non-lexicographic order and >= 2 records per taxon",
             required_labels=("all_noise_zero", "some_trait_noise_free_some_noisy", "herit_h2", "herit_H2", "unequal_nrep",
                              "taxa_non_lexicographic", "error_free_trait_with_block_effects", "rng_G", "rng_RS",
                              "same_array_for_error_and_other_variance_then_herit", "twin_protocol_shares_error_variance_array",
                              "variance_arrays_readonly", "variance_arrays_strided", "variances_via_setters",
                              "trial_run_before_heritability_set", "trial_table_categorical_labels_multi_family",
                              "two_trials_stacked_keeping_row_numbers", "breeding_values_for_sub_list_of_taxa",
                              "trial_table_repeated_row_labels_and_taxa_not_in_genotypes") + LABEL_CONTENT_LABELS),
    SubCheck("meanbv", check_meanbv, meanbv_case(), quick=700, thorough=3000, shards_quick=4,
             rule="hand-built phenotype tables (1-9 taxa with labels of drawn contents, 0-5 records each, rows permuted twice, optional groups, "
                  "1-3 traits with plain or confusable names, label columns under drawn names with decoy columns, "
                  "label-column dtypes, row index of 13 kinds incl. repeated labels) "
                  "and a genotype matrix listing any non-empty sub-list of the taxa in arbitrary order (or no matrix); "
                  "non-trivial = >= 3 genotyped taxa in non-lexicographic order, some taxon with >= 2 records, >= 1 "
                  "genotyped taxon without records",
             required_labels=("unphenotyped_taxon_in_genotypes", "table_has_taxa_not_in_genotypes",
                              "genotype_order_non_lexicographic", "mode_none", "categorical_labels_grouped_multi_family",
                              "categorical_with_unused_categories", "taxa_column_string", "taxa_column_object",
                              "family_column_Int64", "repeated_row_labels_and_table_has_taxa_not_in_genotypes",
                              "repeated_row_labels_no_genotype_matrix", "row_labels_repeated_in_one_table_unique_in_the_other")
                             + tuple("row_index_" + k for k in sorted(set(INDEX_KINDS))) + LABEL_CONTENT_LABELS
                             + ("phenotyped_genotyped_taxon_with_edge_white_space", "label_columns_renamed", "decoy_label_columns",
                                "family_labels_strings")),
    SubCheck("stats", check_stats, stats_case(), quick=24, thorough=60, shards_quick=4,
             rule="large trials (4000-6000 env x 2 taxa, 800-1600 env x 2-4 taxa, or 20-50 env x 60-110 taxa; nrep patterns incl. unequal); every case "
                  "is non-trivial; chi-square tests at two-sided level %g each" % ALPHA_TEST),
]
