"""atheris driver for the C17 sub-checks sus, sus_boundary, tiled, axis_shuffle, outcross (optional second driver, thorough tier only).

libFuzzer mutates the byte string that Hypothesis turns into a case of one of the sub-checks' strategies; each case goes
through exactly the same oracle as `./check C17` (pbt.checks.c17), with the findings listed as *known* for C17 suppressed by
their input-side signatures, so the campaign searches behind them.  Coverage feedback comes from the pure-Python modules
pybrops.core.random.sampling and pybrops.core.util.array.  Bounded by -runs=, never by time.  A violation raises (libFuzzer stops and keeps
the input); the decoded case is written to replays/C17/ so `./check C17 --replay <file>` re-runs it.

    cd /verif && PYTHONHASHSEED=0 PYTHONPATH=/repo:/verif:/verif/.deps /venv/bin/python -m pbt.fuzz.c17_sampling \\
        -runs=20000 -max_len=2048 -len_control=0 [-seed=1]
"""
import json
import os
import sys

import atheris

with atheris.instrument_imports():
    from pbt import compat  # noqa: F401
    from pbt.checks import c17 as chk

from hypothesis import given, settings, HealthCheck, strategies as st
from pbt.core import Ctx, Violation, case_hash, jsonable
from pbt.run import _load_known, _exception_clause

HERE = os.path.dirname(os.path.dirname(os.path.dirname(os.path.abspath(__file__))))
KNOWN = sorted(f["key"] for f in _load_known() if f["property"] == "C17" and f["status"] == "known")
STATE = {"n": 0}
SUB = {sc.name: sc for sc in chk.SUBCHECKS if sc.name in ("sus", "sus_boundary", "tiled", "axis_shuffle", "outcross")}


@settings(database=None, deadline=None, suppress_health_check=list(HealthCheck))
@given(st.one_of(*[st.tuples(st.just(name), sc.strategy) for name, sc in sorted(SUB.items())]))
def one(pair):
    name, case = pair
    STATE["n"] += 1
    ctx = Ctx(KNOWN, ())
    try:
        try:
            SUB[name].fn(case, ctx)
        except Violation:
            raise
        except Exception as e:          # same convention as the runner: an escaping exception is a violation
            raise Violation(_exception_clause(e), repr(e))
    except Violation as v:
        d = os.path.join(HERE, "replays", "C17")
        os.makedirs(d, exist_ok=True)
        path = os.path.join(d, "%s-atheris-%s.json" % (name, case_hash(case)[:12]))
        with open(path, "w") as fh:
            json.dump({"property": "C17", "subcheck": name, "clause": v.clause, "msg": v.msg, "case": jsonable(case),
                       "expect": "pass"}, fh, indent=1, sort_keys=True)
        sys.stderr.write("VIOLATION property=C17 replay=%s\n" % path)
        raise


def main():
    atheris.Setup(sys.argv, one.hypothesis.fuzz_one_input)
    atheris.Fuzz()          # does not return: libFuzzer exits the process (0 = no violation within -runs)


if __name__ == "__main__":
    main()
