"""atheris driver for the C18 block-partition sub-checks (optional second driver, thorough tier only).

libFuzzer mutates the byte string that Hypothesis turns into a `bins_case()` / `haplomat_case()`; each case goes through
exactly the same oracle as `./check C18 --only bins,haplomat` (pbt.checks.c18.check_bins / check_haplomat), with the
findings listed as *known* for C18 suppressed by their input-side signatures, so the campaign searches behind them.
Coverage feedback comes from pybrops.core.util.haplo and the three problem modules (pure Python).  Bounded by -runs=,
never by time.  A violation raises (libFuzzer stops and keeps the input); the decoded case is written to replays/C18/ so
`./check C18 --replay <file>` re-runs it.

    cd /verif && PYTHONHASHSEED=0 PYTHONPATH=/repo:/verif:/verif/.deps /venv/bin/python -m pbt.fuzz.c18_blocks \
        -runs=20000 -max_len=2048 -len_control=0 [-seed=1]

(-len_control=0 lets libFuzzer use long inputs from the start; short inputs only decode to one-chromosome layouts.)
Measured: ~450 exec/s after ~100 s of import instrumentation; 3 000 runs reach 827 edges, no violation on the unchanged tree.
"""
import json
import os
import sys

import atheris

with atheris.instrument_imports():
    from pbt import compat  # noqa: F401
    from pbt.checks import c18

from hypothesis import given, settings, HealthCheck, strategies as st
from pbt.core import Ctx, Violation, case_hash, jsonable
from pbt.run import _load_known, _exception_clause

HERE = os.path.dirname(os.path.dirname(os.path.dirname(os.path.abspath(__file__))))
KNOWN = sorted(f["key"] for f in _load_known() if f["property"] == "C18" and f["status"] == "known")
STATE = {"n": 0}
SUB = {"bins": c18.check_bins, "haplomat": c18.check_haplomat}


@settings(database=None, deadline=None, suppress_health_check=list(HealthCheck))
@given(st.one_of(st.tuples(st.just("bins"), c18.bins_case()), st.tuples(st.just("haplomat"), c18.haplomat_case())))
def one(pair):
    name, case = pair
    STATE["n"] += 1
    ctx = Ctx(KNOWN, ())
    try:
        try:
            SUB[name](case, ctx)
        except Violation:
            raise
        except Exception as e:          # same convention as the runner: an escaping exception is a violation
            raise Violation(_exception_clause(e), repr(e))
    except Violation as v:
        d = os.path.join(HERE, "replays", "C18")
        os.makedirs(d, exist_ok=True)
        path = os.path.join(d, "%s-atheris-%s.json" % (name, case_hash(case)[:12]))
        with open(path, "w") as fh:
            json.dump({"property": "C18", "subcheck": name, "clause": v.clause, "msg": v.msg, "case": jsonable(case),
                       "expect": "pass"}, fh, indent=1, sort_keys=True)
        sys.stderr.write("VIOLATION property=C18 replay=%s\n" % path)
        raise


def main():
    atheris.Setup(sys.argv, one.hypothesis.fuzz_one_input)
    atheris.Fuzz()          # does not return: libFuzzer exits the process (0 = no violation within -runs)


if __name__ == "__main__":
    main()
