"""atheris driver for the C16 VCF sub-check (optional second driver, thorough tier only).

libFuzzer mutates the byte string that Hypothesis turns into a `vcf_case()`; the case goes through exactly the same
oracle as `./check C16 --only vcf` (pbt.checks.c16.check_vcf).  Bounded by -runs=, never by time.  A violation raises
(libFuzzer stops and keeps the input); the decoded case is written to replays/C16/ so `./check C16 --replay` re-runs it.

    cd /verif && PYTHONPATH=/repo:/verif:/verif/.deps /venv/bin/python -m pbt.fuzz.c16_vcf -runs=20000 [-seed=1]
"""
import json
import os
import sys

import atheris

with atheris.instrument_imports():
    from pbt import compat  # noqa: F401
    from pbt.checks import c16

from hypothesis import given, settings, HealthCheck
from pbt.core import Ctx, Violation, case_hash, jsonable

HERE = os.path.dirname(os.path.dirname(os.path.dirname(os.path.abspath(__file__))))
STATE = {"n": 0}


@settings(database=None, deadline=None, suppress_health_check=list(HealthCheck))
@given(c16.vcf_case())
def one(case):
    STATE["n"] += 1
    ctx = Ctx((), ())
    try:
        c16.check_vcf(case, ctx)
    except Violation as v:
        d = os.path.join(HERE, "replays", "C16")
        os.makedirs(d, exist_ok=True)
        path = os.path.join(d, "vcf-atheris-%s.json" % case_hash(case)[:12])
        with open(path, "w") as fh:
            json.dump({"property": "C16", "subcheck": "vcf", "clause": v.clause, "msg": v.msg, "case": jsonable(case),
                       "expect": "pass"}, fh, indent=1, sort_keys=True)
        sys.stderr.write("VIOLATION property=C16 replay=%s\n" % path)
        raise


def main():
    atheris.Setup(sys.argv, one.hypothesis.fuzz_one_input)
    atheris.Fuzz()


if __name__ == "__main__":
    main()
