"""Harness-side compatibility shim and import guard.

numpy 2.x removed ``numpy.float_`` and ``numpy.in1d``; pybrops 1.0.3 still uses both, so ``import pybrops``
raises under the installed numpy.  Restoring the two aliases changes no pybrops behaviour.  This is done in
the harness (not in /repo) so that the pinned baseline keeps collecting exactly what it collected.
"""
import os
import sys
import warnings

import numpy

if not hasattr(numpy, "float_"):
    numpy.float_ = numpy.float64
if not hasattr(numpy, "in1d"):
    def _in1d(ar1, ar2, **kw):
        return numpy.isin(numpy.ravel(ar1), ar2, **kw)
    numpy.in1d = _in1d

warnings.filterwarnings("ignore")

REPO = os.environ.get("PYBROPS_REPO", "/repo")
if REPO not in sys.path:
    sys.path.insert(0, REPO)

import pybrops  # noqa: E402

if not os.path.realpath(pybrops.__file__).startswith(os.path.realpath(REPO) + os.sep):
    sys.stderr.write("HARNESS-ERROR: pybrops imported from %s, expected under %s\n" % (pybrops.__file__, REPO))
    sys.exit(2)
