"""Runner: tiers, sharding, collect-then-shrink, replay, regression tier, known findings, evidence, exit codes.

exit 0  property held on everything explored (KNOWN-FINDING lines possible)
exit 1  at least one violation not listed in known_findings.json; one `VIOLATION property=<id> replay=<path>` line each
exit 2  harness error (never reported as a violation)
"""
import argparse
import collections
import importlib
import json
import multiprocessing
import os
import subprocess
import sys
import time
import traceback

HERE = os.path.dirname(os.path.dirname(os.path.abspath(__file__)))
REPO = os.environ.get("PYBROPS_REPO", "/repo")

MAX_ROUNDS = 4           # search rounds behind already-recorded violation clauses
SHRINK_BUDGET_S = {"quick": 45.0, "thorough": 240.0}
TASK_BUDGET_S = {"quick": 900.0, "thorough": 6 * 3600.0}


def _load_module(prop):
    from pbt import compat  # noqa: F401  (shim + import guard; must precede any pybrops import)
    return importlib.import_module("pbt.checks.%s" % prop.lower())


def _load_known():
    path = os.path.join(HERE, "known_findings.json")
    with open(path) as fh:
        out = json.load(fh)["findings"]
    # development aid: per-property proposals, merged into known_findings.json before they count
    d = os.path.join(HERE, "known_findings.d")
    if os.path.isdir(d):
        for fn in sorted(os.listdir(d)):
            if fn.endswith(".json"):
                with open(os.path.join(d, fn)) as fh:
                    out.extend(json.load(fh)["findings"])
    return out


def _innermost_frames(tb):
    pyb, last = None, None
    for fs in traceback.extract_tb(tb):
        last = fs
        fn = fs.filename.replace("\\", "/")
        if "/pybrops/" in fn:
            pyb = fs
    return pyb, last


def _exception_clause(e):
    pyb, last = _innermost_frames(e.__traceback__)
    fs = pyb or last
    where = "?"
    if fs is not None:
        where = "%s:%s" % (os.path.basename(fs.filename), fs.name)
    return "exception:%s@%s" % (type(e).__name__, where)


class CaseTimeout(BaseException):
    """a single case ran into the per-case watchdog: inconclusive, never a violation"""


CASE_TIMEOUT_S = float(os.environ.get("PBT_CASE_TIMEOUT_S", "600"))
TIMEOUTS = {"n": 0}


def _alarm(signum, frame):
    raise CaseTimeout()


def run_case(sc, case, known_keys=(), suppressed=()):
    """Execute one case; returns (ctx, violation-or-None, rejected)."""
    import signal
    from pbt.core import Ctx, Violation, Reject, GlobalStreams
    ctx = Ctx(known_keys, suppressed)
    use_alarm = hasattr(signal, "setitimer")
    if use_alarm:
        try:
            old = signal.signal(signal.SIGALRM, _alarm)
            signal.setitimer(signal.ITIMER_REAL, CASE_TIMEOUT_S)
        except ValueError:          # not in the main thread
            use_alarm = False
    try:
        with GlobalStreams():
            sc.fn(case, ctx)
    except CaseTimeout:
        TIMEOUTS["n"] += 1
        return ctx, None, True      # counted as out-of-budget (rejected), reported as inconclusive
    except Violation as v:
        return ctx, v, False
    except Reject:
        return ctx, None, True
    except (KeyboardInterrupt, MemoryError, SystemExit):
        raise
    except Exception as e:  # any uncaught exception out of code under test = operation did not behave as specified
        clause = _exception_clause(e)
        msg = "".join(traceback.format_exception(type(e), e, e.__traceback__)[-6:])[-1500:]
        if clause in ctx.suppressed:
            ctx.suppressed_hits[clause] += 1
            return ctx, None, False
        return ctx, Violation(clause, msg), False
    finally:
        if use_alarm:
            signal.setitimer(signal.ITIMER_REAL, 0)
            signal.signal(signal.SIGALRM, old)
    return ctx, None, False


def _truncate(obj, limit=1800):
    s = json.dumps(obj, sort_keys=True, default=str)
    if len(s) <= limit:
        return obj
    return {"truncated_json": s[:limit] + "...", "json_len": len(s)}


def run_task(task):
    """One (sub-check, shard) in a worker process."""
    prop, scname, shard, seed, n, tier, known_keys = task
    t0 = time.time()
    out = {"subcheck": scname, "shard": shard, "evaluations": 0, "rejected": 0, "nontrivial_hashes": [],
           "labels": {}, "samples": [], "excluded": {}, "suppressed_hits": {}, "violations": [], "error": None,
           "inconclusive": False, "wall_s": 0.0, "exhaustive": False}
    os.environ["PBT_TIER"] = tier
    try:
        mod = _load_module(prop)
        from pbt.core import case_hash, jsonable
        sc = {s.name: s for s in mod.SUBCHECKS}[scname]
        import hypothesis
        from hypothesis import given, settings, HealthCheck

        nontriv = set()
        labels = collections.Counter()
        excluded = collections.Counter()
        supp_hits = collections.Counter()
        samples = []          # (size, case)
        state = {"evals": 0, "rej": 0}
        suppressed = set()
        budget_t = t0 + TASK_BUDGET_S[tier]

        def account(case, ctx):
            state["evals"] += 1
            for lb in ctx.labels:
                labels[lb] += 1
            excluded.update(ctx.excluded)
            supp_hits.update(ctx.suppressed_hits)
            if ctx.is_nontrivial:
                h = case_hash(case)
                if h not in nontriv:
                    nontriv.add(h)
                    if len(samples) < 3:
                        samples.append({"case": _truncate(jsonable(case)), "labels": sorted(set(ctx.labels)),
                                        "notes": _truncate(jsonable(ctx.notes), 600)})

        if sc.cases is not None:
            # finite enumeration: no Hypothesis involved
            out["exhaustive"] = True
            allcases = list(sc.cases(tier))
            mine = allcases[shard::(sc.shards_thorough if tier == "thorough" else sc.shards_quick)]
            for case in mine:
                ctx, v, rej = run_case(sc, case, known_keys, suppressed)
                if rej:
                    state["rej"] += 1
                    continue
                account(case, ctx)
                if v is not None:
                    out["violations"].append({"clause": v.clause, "msg": v.msg[:2000], "case": jsonable(case)})
                    suppressed.add(v.clause)
                    if len(out["violations"]) >= (sc.max_rounds or MAX_ROUNDS):
                        break
        else:
            shrink_budget = sc.shrink_s if sc.shrink_s is not None else SHRINK_BUDGET_S[tier]
            for rnd in range(sc.max_rounds or MAX_ROUNDS):
                fail = {"case": None, "v": None, "t": None, "clause": None}

                def body(case):
                    now = time.time()
                    if now > budget_t:
                        out["inconclusive"] = True
                        return
                    if fail["t"] is not None and now - fail["t"] > shrink_budget:
                        return   # stop shrinking: everything "passes" from now on; best failing case is kept below
                    ctx, v, rej = run_case(sc, case, known_keys, suppressed)
                    if rej:
                        state["rej"] += 1
                        return
                    if fail["t"] is None:
                        account(case, ctx)
                    if v is not None:
                        if fail["clause"] is not None and v.clause != fail["clause"]:
                            return    # shrinker slipped to another clause: keep this round about one clause
                        if fail["t"] is None:
                            fail["t"] = now
                            fail["clause"] = v.clause
                        fail["case"], fail["v"] = case, v
                        raise v

                test = given(sc.strategy)(body)
                test = hypothesis.seed(seed * 1000 + shard * 17 + rnd)(test)
                test = settings(max_examples=n, database=None, deadline=None, derandomize=False,
                                report_multiple_bugs=False, print_blob=False,
                                suppress_health_check=[HealthCheck.too_slow, HealthCheck.data_too_large,
                                                       HealthCheck.large_base_example])(test)
                try:
                    test()
                except (KeyboardInterrupt, MemoryError):
                    raise
                except BaseException as e:
                    if fail["v"] is None:
                        # Hypothesis-level failure (health check, unsatisfiable, ...) = harness error
                        out["error"] = "".join(traceback.format_exception(type(e), e, e.__traceback__))[-3000:]
                        break
                if fail["v"] is None:
                    break
                v = fail["v"]
                out["violations"].append({"clause": v.clause, "msg": v.msg[:2000], "case": jsonable(fail["case"])})
                suppressed.add(v.clause)
                if out["inconclusive"]:
                    break

        out["evaluations"] = state["evals"]
        out["rejected"] = state["rej"]
        if TIMEOUTS["n"]:
            out["inconclusive"] = True
            out["case_timeouts"] = TIMEOUTS["n"]
        out["nontrivial_hashes"] = sorted(nontriv)
        out["labels"] = dict(labels)
        out["samples"] = samples
        out["excluded"] = dict(excluded)
        out["suppressed_hits"] = dict(supp_hits)
    except (KeyboardInterrupt, MemoryError):
        raise
    except BaseException as e:
        out["error"] = "".join(traceback.format_exception(type(e), e, e.__traceback__))[-3000:]
    out["wall_s"] = time.time() - t0
    return out


def _repo_state():
    try:
        head = subprocess.run(["git", "-C", REPO, "rev-parse", "HEAD"], capture_output=True, text=True).stdout.strip()
        dirty = subprocess.run(["git", "-C", REPO, "status", "--porcelain", "--", "pybrops"], capture_output=True,
                               text=True).stdout.strip()
        return {"head": head, "dirty": bool(dirty)}
    except Exception:
        return {"head": "?", "dirty": None}


def write_replay(prop, scname, viol, repo_state):
    from pbt.core import case_hash
    d = os.path.join(os.environ.get("PBT_REPLAY_DIR") or os.path.join(HERE, "replays"), prop)
    os.makedirs(d, exist_ok=True)
    safe_clause = "".join(c if c.isalnum() else "_" for c in viol["clause"])[:40]
    path = os.path.join(d, "%s-%s-%s.json" % (scname, safe_clause, case_hash(viol["case"])[:12]))
    with open(path, "w") as fh:
        json.dump({"property": prop, "subcheck": scname, "clause": viol["clause"], "msg": viol["msg"],
                   "case": viol["case"], "repo": repo_state, "expect": "pass"}, fh, indent=1, sort_keys=True,
                  default=str)
    return path


def replay_file(prop, mod, path, known_keys=()):
    """Re-execute a saved case, bypassing Hypothesis.  Returns Violation or None."""
    with open(path) as fh:
        rec = json.load(fh)
    sc = {s.name: s for s in mod.SUBCHECKS}[rec["subcheck"]]
    ctx, v, rej = run_case(sc, rec["case"], known_keys, ())
    return rec, v


def main(argv=None):
    ap = argparse.ArgumentParser()
    ap.add_argument("prop")
    ap.add_argument("--tier", default=os.environ.get("VERIF_TIER", "quick"), choices=["quick", "thorough"])
    ap.add_argument("--replay", default=None)
    ap.add_argument("--only", default=None, help="comma separated sub-check names")
    ap.add_argument("--scale", type=float, default=1.0, help="multiply example counts (development aid)")
    ap.add_argument("--jobs", type=int, default=int(os.environ.get("VERIF_JOBS", "16")))
    ap.add_argument("--no-evidence", action="store_true")
    args = ap.parse_args(argv)
    prop = args.prop.upper()
    try:
        seed = int(os.environ.get("VERIF_SEED", "1"))
    except ValueError:
        seed = 1
    t0 = time.time()
    os.environ["PBT_TIER"] = args.tier      # before the check module is imported: modules may size their generators by tier

    try:
        mod = _load_module(prop)
    except SystemExit:
        raise
    except BaseException:
        sys.stderr.write("HARNESS-ERROR: cannot load check module for %s\n%s\n" % (prop, traceback.format_exc()))
        return 2

    findings = [f for f in _load_known() if f["property"] == prop]
    known_keys = sorted(f["key"] for f in findings if f["status"] == "known")

    os.environ["PBT_TIER"] = args.tier
    # ---- single replay -----------------------------------------------------------------------------------
    if args.replay:
        rec, v = replay_file(prop, mod, args.replay, ())
        if v is not None:
            print("replay fails: %s" % v)
            print("VIOLATION property=%s replay=%s" % (prop, args.replay))
            return 1
        print("replay passes: %s" % args.replay)
        return 0

    repo_state = _repo_state()
    violations = []     # dicts with clause,msg,case,subcheck,path
    known_lines = []
    harness_errors = []

    # ---- regression tier: committed replays ------------------------------------------------------------------
    regdir = os.path.join(HERE, "regress", prop)
    nreg = 0
    if os.path.isdir(regdir):
        for fn in sorted(os.listdir(regdir)):
            if not fn.endswith(".json"):
                continue
            path = os.path.join(regdir, fn)
            try:
                with open(path) as fh:
                    rec = json.load(fh)
                expect = rec.get("expect", "pass")
                rec, v = replay_file(prop, mod, path, ())
            except BaseException:
                harness_errors.append("regress %s: %s" % (fn, traceback.format_exc()[-1500:]))
                continue
            nreg += 1
            if expect == "pass":
                if v is not None:
                    print("regression replay fails: %s: %s" % (fn, str(v)[:300]))
                    violations.append({"clause": v.clause, "msg": v.msg, "case": rec["case"],
                                       "subcheck": rec["subcheck"], "path": path})
            elif expect.startswith("known:"):
                key = expect.split(":", 1)[1]
                f = [x for x in findings if x["key"] == key]
                if f and f[0]["status"] == "known":
                    if v is not None:
                        ln = "KNOWN-FINDING: property=%s %s [%s]" % (prop, f[0]["what"], key)
                        if ln not in known_lines:
                            known_lines.append(ln)
                    else:
                        print("note: known finding %s no longer reproduces from %s" % (key, fn))
                else:
                    # not listed (or listed as fixed): a failing replay is a violation like any other
                    if v is not None:
                        violations.append({"clause": v.clause, "msg": v.msg, "case": rec["case"],
                                           "subcheck": rec["subcheck"], "path": path})

    # ---- generated search -----------------------------------------------------------------------------------
    subchecks = list(mod.SUBCHECKS)
    if args.only:
        want = set(args.only.split(","))
        subchecks = [s for s in subchecks if s.name in want]
    tasks = []
    for sc in subchecks:
        nsh = sc.shards_thorough if args.tier == "thorough" else sc.shards_quick
        n = sc.thorough if args.tier == "thorough" else sc.quick
        n = max(1, int(n * args.scale))
        for sh in range(nsh):
            tasks.append((prop, sc.name, sh, seed, n, args.tier, known_keys))
    # longest first
    results = []
    if tasks:
        ctxm = multiprocessing.get_context("fork")
        with ctxm.Pool(min(args.jobs, len(tasks)), maxtasksperchild=1) as pool:
            for r in pool.imap_unordered(run_task, tasks, chunksize=1):
                results.append(r)

    per = {}
    for sc in subchecks:
        per[sc.name] = {"evaluations": 0, "rejected": 0, "nontrivial": set(), "labels": collections.Counter(),
                        "samples": [], "excluded": collections.Counter(), "wall_s": 0.0, "shards": 0,
                        "inconclusive": False, "exhaustive": False, "suppressed_hits": collections.Counter()}
    seen_clauses = set()
    for r in sorted(results, key=lambda r: (r["subcheck"], r["shard"])):
        p = per[r["subcheck"]]
        p["evaluations"] += r["evaluations"]
        p["rejected"] += r["rejected"]
        p["nontrivial"].update(r["nontrivial_hashes"])
        p["labels"].update(r["labels"])
        p["excluded"].update(r["excluded"])
        p["suppressed_hits"].update(r["suppressed_hits"])
        if len(p["samples"]) < 3:
            p["samples"].extend(r["samples"][: 3 - len(p["samples"])])
        p["wall_s"] = max(p["wall_s"], r["wall_s"])
        p["shards"] += 1
        p["inconclusive"] = p["inconclusive"] or r["inconclusive"]
        p["exhaustive"] = p["exhaustive"] or r["exhaustive"]
        if r["error"]:
            harness_errors.append("%s shard %d: %s" % (r["subcheck"], r["shard"], r["error"]))
        for v in r["violations"]:
            key = (r["subcheck"], v["clause"])
            if key in seen_clauses:
                continue      # same root-cause bucket already reported from another shard
            seen_clauses.add(key)
            v = dict(v)
            v["subcheck"] = r["subcheck"]
            v["path"] = write_replay(prop, r["subcheck"], v, repo_state)
            violations.append(v)

    # ---- evidence -------------------------------------------------------------------------------------------
    total_evals = sum(p["evaluations"] for p in per.values())
    total_nontriv = sum(len(p["nontrivial"]) for p in per.values())
    label_hist = {}
    zero_required = []
    for sc in subchecks:
        p = per[sc.name]
        for lb, c in p["labels"].items():
            label_hist["%s/%s" % (sc.name, lb)] = c
        for lb in sc.required_labels:
            if p["labels"].get(lb, 0) == 0:
                zero_required.append("%s/%s" % (sc.name, lb))
    samples = []
    for sc in subchecks:
        for s in per[sc.name]["samples"][:2]:
            samples.append({"subcheck": sc.name, **s})
    excluded = collections.Counter()
    for p in per.values():
        excluded.update(p["excluded"])
    rule = " || ".join("%s: %s" % (sc.name, sc.rule) for sc in subchecks)
    ev = {
        "property_id": prop,
        "tier": args.tier,
        "seed": seed,
        "level": "exploration",
        "coverage": {
            "evaluations": total_evals,
            "distinct_nontrivial": total_nontriv,
            "rule": rule,
            "samples": samples,
            "label_histogram": label_hist,
            "excluded_by_known_finding": dict(excluded),
            "regression_replays": nreg,
            "required_labels_at_zero": zero_required,
            "exhaustive": bool(subchecks) and all(per[s.name]["exhaustive"] for s in subchecks),
            "per_subcheck": {
                sc.name: {
                    "evaluations": per[sc.name]["evaluations"],
                    "rejected_out_of_domain": per[sc.name]["rejected"],
                    "distinct_nontrivial": len(per[sc.name]["nontrivial"]),
                    "shards": per[sc.name]["shards"],
                    "wall_s": round(per[sc.name]["wall_s"], 2),
                    "exhaustive": per[sc.name]["exhaustive"],
                    "inconclusive_time_budget": per[sc.name]["inconclusive"],
                } for sc in subchecks},
        },
        "assumptions": list(getattr(mod, "ASSUMPTIONS", [])) + [
            "numpy.float_/numpy.in1d aliases restored by the harness before importing pybrops (pbt/compat.py)",
            "pybrops imported from %s (HEAD %s, dirty=%s)" % (REPO, repo_state["head"][:12], repo_state["dirty"]),
        ],
        "wall_s": round(time.time() - t0, 2),
        "violations": len(violations),
        "known_findings_reported": known_lines,
    }
    if not args.no_evidence and not args.only:
        os.makedirs(os.path.join(HERE, "evidence"), exist_ok=True)
        with open(os.path.join(HERE, "evidence", "%s.json" % prop), "w") as fh:
            json.dump(ev, fh, indent=1, sort_keys=True, default=str)

    # ---- report ---------------------------------------------------------------------------------------------
    for sc in subchecks:
        p = per[sc.name]
        print("%s/%s: cases=%d nontrivial=%d rejected=%d wall=%.1fs%s" % (
            prop, sc.name, p["evaluations"], len(p["nontrivial"]), p["rejected"], p["wall_s"],
            " INCONCLUSIVE(time budget)" if p["inconclusive"] else ""))
    for ln in known_lines:
        print(ln)
    if excluded:
        print("excluded by known-finding signatures: %s" % dict(excluded))
    if zero_required:
        print("warning: labels the property text calls out stayed at zero: %s" % zero_required)
    if harness_errors:
        for e in harness_errors:
            sys.stderr.write("HARNESS-ERROR: %s\n" % e)
    if violations:
        for v in violations:
            print("violation in %s clause=%s: %s" % (v["subcheck"], v["clause"], v["msg"][:600].replace("\n", " | ")))
            print("VIOLATION property=%s replay=%s" % (prop, v["path"]))
        return 1
    if harness_errors:
        return 2
    if total_evals == 0 and not args.only:
        sys.stderr.write("HARNESS-ERROR: no cases executed\n")
        return 2
    print("OK property=%s tier=%s seed=%d cases=%d nontrivial=%d wall=%.1fs" % (
        prop, args.tier, seed, total_evals, total_nontriv, time.time() - t0))
    return 0


if __name__ == "__main__":
    sys.exit(main())
