"""Regenerates /verif/MANIFEST.json from the table below (run: /venv/bin/python -m pbt.manifest_gen)."""
import json
import os

HERE = os.path.dirname(os.path.dirname(os.path.abspath(__file__)))

# id -> (technique, level text, level note, design ref)
CHECKS = {
    "C01": (
        "Hypothesis-generated crosses over tagged founder haplotypes; provenance-tracing oracle (membership, switch sites, sibling structure, counts/labels)",
        "Generated-input search over all seven protocols and both meiosis kernels: parents whose every cell names its founder "
        "haplotype (or arbitrary int8 codes), cross tables with forced selfs/repeats, scalar and per-cross counts incl. zeros, "
        "selfing depth 0..3, crossover vectors with exact 0/0.5, numpy Generator / RandomState / scripted boundary draws, two "
        "consecutive calls. Oracle reads provenance from the progeny: allowed parents per side, source changes only where "
        "xoprob>0, one intermediate hybrid per mating, DH homozygosity, counts/order/names/family labels/counters, inputs and "
        "marker metadata unchanged. Absence is not established; intermediate hybrids are not observable directly. "
        "Also: negative parent indices, progeny counters beyond the 7-digit padding (each progeny then located through the counter in its name). Later rounds: the crossover-probability array edited in place between two calls; per-cross count arrays in narrow integer dtypes whose products exceed the dtype.",
        "Counters < 10**7; at least one progeny in total; starting copy at the first marker unconstrained.",
        "DESIGN.md §3 C01"),
    "C02": (
        "Hypothesis-generated layouts/maps; exact binomial tests of realised recombination against declared probabilities at fixed seeds",
        "Generated layouts (2..10 markers, 1..3 chromosomes, free crossover vectors with exact 0/0.5 and forced adjacent "
        "heterogeneity, or vectors derived by pybrops from a shuffled genetic map with Haldane/Kosambi), both kernels modules and "
        "all seven protocols, 20000 (quick) / 200000 (thorough) gametes per case read back through tagged founders. Exact "
        "two-sided binomial tests: per-interval crossover frequency, segregation 1/2, independence between intervals, Haldane "
        "composition over non-adjacent markers (from the map, not from xoprob), independent assortment of chromosome starts, "
        "independence between gametes; stored xoprob equals the map function of the map distance (1e-12). Total false-alarm "
        "budget 1e-9 per run. Convergence 'in the limit' is replaced by finite samples: deviations below ~0.026 (quick) / "
        "~0.008 (thorough) are not detectable. "
        "Also: parents homozygous at a generated subset of markers (recombination between heterozygous markers across homozygous ones against the product formula) and one 4500 x 2048 call (all crossover patterns of one call distinct). Later rounds: stored probabilities of 1e-30 over 1.6e8 interval-meioses; maps handed over through both map classes, grouped by the constructor or left in file order.",
        "Fixed-seed statistical test; trusts scipy.stats.binomtest; numpy generator streams assumed to be good uniform sources.",
        "DESIGN.md §3 C02"),
    "C03": (
        "Hypothesis-generated operation programs on labelled matrices; hidden-entity-id model (labels and cells are functions of ids), checked after every step",
        "Model-based history search: programs of 1..8 structural operations (select/delete/insert/adjoin/concat/append/remove/incorp/"
        "reorder/sort/group/ungroup/copy) on any labelled axis of the genotype, phased genotype, taxa-variant, phased taxa-variant, "
        "taxa-trait and base taxa/variant/trait matrix classes; 1..6 entities per axis, optional label arrays independently present or "
        "absent, duplicated labels, int/negative/slice/list/array/mask indices, matrix or ndarray operands. Every entity carries a hidden "
        "id from which all its labels and data cells derive, so after each step the harness checks that every position holds the data and "
        "all labels of one entity (the expected arrangement comes from numpy applied to the id lists; for sort/group the realised "
        "permutation is read back and only key order is required), operands are unchanged, generic(axis=+/-) equals specific, mutating "
        "equals non-mutating, and a reported grouping is a true contiguous partition. "
        "Also: square-taxa, molecular-coancestry and square taxa-trait families (operations on both taxa axes, fill value off the blocks), the three genotyping protocols after preparatory grouping/sorting, mutating operations applied to the live object with earlier operands re-verified after every step (aliasing), wide group ids under narrow label dtypes, matrix operands with partial explicit label arrays. Later rounds: group ids spelled negative, beyond 2^53 (equal as float64) or at the int64 ends.",
        "Index semantics taken from numpy; operands share the receiver's entities on the other axes; tie order in sorts unconstrained; "
        "square-taxa, breeding-value and trait-square families are covered to the extent stated in evidence.",
        "DESIGN.md §3 C03"),
    "C04": (
        "Hypothesis-generated models/genotypes vs fsum/Fraction definitions; metamorphic relations (input form, permutation, marker partition); ridge-fit optimality conditions",
        "Generated additive / additive-dominance / rrBLUP-class models (1..3 traits, q 1..3 fixed effects, exact-zero and signed effects) and "
        "genotypes (ploidy 1/2/4, 1..60 taxa plus the sizes where 1/(ploidy*n) is inexact, 1..25 markers): gebv/gegv/predict/TrueBreedingValue "
        "values and labels from phased, unphased and raw-array input, taxon-permutation equivariance, additivity over marker partitions, score, "
        "var_A/var_G/var_a, Bulmer ratio incl. its NaN rule, all twelve favourable/deleterious/neutral allele statistics with every dtype, and for "
        "fitted rrBLUP models: intercept = training mean, monomorphic markers exactly zero, penalised criterion no worse than the zero solution, "
        "normal equations within a bound derived from the solver's stopping rules. "
        "Also: effects assigned through the public setters after the model object has been used with other effects. Fifth round: rrBLUP training matrices of float-coded dosages in [0, ploidy] (expected / imputed / mean-filled values, markers constant at non-dyadic values, n = 2..40).",
        "Tolerances are k*eps*sum|terms|; no subnormal effects; Nelder-Mead optimum of the likelihood is not itself checked.",
        "DESIGN.md §3 C04"),
    "C11": (
        "Hypothesis-generated distances, maps (shuffled rows) and queries vs closed forms through a different code path (expm1/log1p/tanh/atanh) and exact-rational linear interpolation; metamorphic row-order invariance",
        "Map functions: range, 0->0, inf->1/2, monotone, closed forms, both round trips with a conditioning-aware bound. Genetic maps (both "
        "classes, 1..5 chromosomes, congruent and non-congruent, cM/M units, auto_group on/off): pairwise distances symmetric / zero diagonal / "
        "additive / inf across chromosomes, sequential = pairwise, interpolation at own markers exact, exact-rational linear reference between and "
        "beyond markers, order preservation, absent chromosome -> NaN, invariance under row permutation, interp_gmap rows and group metadata; "
        "interp_xoprob on phased and unphased matrices equals mapfn of consecutive interpolated distances with 1/2 at chromosome starts. "
        "Also: operation histories on map objects (rebuild, remove/select, setter, derived maps, copies) with every other live map re-verified; matrices that already carry positions. Later rounds: the same query arrays edited in place between two interpolations; chromosome labels of any integer dtype and value (-1, 0, dtype ends, pairs equal as float64).",
        "Duplicated physical positions excluded (as the property states); negative distances on non-congruent maps are skipped and counted.",
        "DESIGN.md §3 C11"),
    "C12": (
        "Hypothesis-generated crosses vs exact enumeration oracles (two-locus founder-label pedigree enumerator for every scheme and selfing depth; full 2^p gamete enumeration for <= 8 markers)",
        "Inbred parents (arbitrary phased for dihybrid), 2..6 taxa, 2..8 markers on 1..3 chromosomes with clustered/coincident positions, 1..3 "
        "traits, nself in {0,1,2,3,5,inf}, mem chunk sizes with boundaries inside chromosomes: every parent tuple of the two/three/four-way and "
        "dihybrid genetic variance, genic variance and progeny covariance classes through from_algmod / from_gmod / factories equals the oracle "
        "(written from the mating protocols, not from the library's D-matrix formulas; self-tested on hand-computed values at import) within "
        "1e-11 x sum|terms|; symmetry in exchangeable parents, zero for identical parents, mem invariance, taxa-permutation equivariance, labels; "
        "usefulness criterion = parental mean + intensity x sqrt(variance); rprob_filial and cov_D* utilities against enumerated pedigrees. "
        "Also: one factory / model / genotype object re-used through 2..4 requests with public modifications in between. Later rounds: usefulness criterion through the four protocols' problem() with the breeding-value slot filled; genetic maps not monotone in stored marker order. Fifth round: chromosomes of 200..600 markers with the number of heterozygous (dihybrid) or differing (two-/three-/four-way) markers of a parent inside one chunk forced to 127..513 incl. exact multiples of 256, against a pairwise closed form built from the two-locus enumeration.",
        "Binary allele coding; progeny genic covariance classes cannot be instantiated (abstract) and are not exercised.",
        "DESIGN.md §3 C12"),
    "C13": (
        "Hypothesis-generated genotype matrices vs loop-formula reference estimators; algebraic laws and summaries on generated symmetric matrices",
        "Generated genotype matrices (phased/unphased, ploidy 1/2/4, 1..12 taxa, 1..25 markers), reference frequencies (None/scalar/array) and "
        "weights for the molecular, VanRaden, Yang and generalised-weighted estimators through classmethods and factories: values against "
        "independent loop formulas (molecular = 2 x mean IBS by enumerating allele pairs), labels and group metadata, symmetry, PSD with a Weyl "
        "bound, kinship = half coancestry, commutation with sub-selection/permutation for fixed reference frequencies, inverse / extreme / mean / "
        "minimum-inbreeding summaries and the PSD predicate against numpy on the oracle matrix; a second sub-check wraps generated PD, singular "
        "and indefinite matrices. "
        "Also: panel sizes across 2^15 / 2^16 markers with a closed-form oracle; row-major, column-major, strided and read-only storage; in-place reorder/sort/group followed by queries; a private snapshot for the no-mutation clause. Later rounds: the stored matrix edited in place (item assignment, in-place operators, apply_jitter) between two rounds of summaries.",
        "Inverse and min-inbreeding only for condition number <= 1e6; Yang reference frequencies in [0.01,0.99]; weights 0 or >= 1e-6.",
        "DESIGN.md §3 C13"),
    "C14": (
        "Hypothesis-generated trials and phenotype tables vs label-joined oracles; exact chi-square tests of realised variance components at fixed seeds (alpha budget 1e-9 per run)",
        "G_E_Phenotyping / TruePhenotyping / MeanPhenotypicBreedingValue / TrueBreedingValue on populations with non-sorted, permuted labels: "
        "one record per (taxon, environment, replicate) with that taxon's labels; zero variances reproduce the oracle genotypic value joined by "
        "label; partially-zero variances show the deterministic noise structure (environment effect shared within an environment, etc.); "
        "set_h2/set_H2 give var_err = (1-h)/h x var_A|G; large trials test error, replicate and environment variance with exact chi-square "
        "tails; mean-phenotype breeding values equal the fsum mean of each taxon's records, are invariant to row permutation, aligned to the "
        "genotype matrix's taxon order, NaN exactly for unphenotyped taxa. "
        "Also: label columns stored as str/object/string/categorical and several integer dtypes; the same array object passed for several variance arguments and to a second protocol. Later rounds: arbitrary row indexes of the phenotype table (repeated labels, stacked trials, MultiIndex); label contents (white space, empty, nan-like, numeric-looking, case/unicode variants, prefixes, very long, mixed int/str) for taxa, traits and column names.",
        "Duplicate taxon names and taxa with more than one group are outside the domain; models with one fixed effect; statistical resolution ~10-25% at the quick tier.",
        "DESIGN.md §3 C14"),
    "C15": (
        "Hypothesis-generated raw matrices and taxa-axis operation programs vs Fraction-exact raw statistics and a value-carrying row model",
        "Raw (n,t) matrices with constant columns, NaN entries, offsets up to 1e9, tiny spreads through from_numpy of the three breeding-value "
        "classes: unscale() reproduces the raw values within 8 eps (|location| + scale |mat|), stored columns are standardised (unit scale and "
        "zeros for constant traits), every summary on the original scale (max/min/range/mean/std/var/arg-extrema) equals the exact raw "
        "statistic for NaN-free traits; histories of select/delete/insert/adjoin/concat/append/remove/incorp keep every retained taxon's raw "
        "row and NaN positions; DenseScaledMatrix rescale/unscale/transform/untransform. "
        "Also: units from 1e-30 to 1e10, zero-row operands, every earlier object re-verified after each step, negative indices. Later rounds: operands of every class of the family and other array-like kinds for every taxa-axis operation; a quarter of the history steps are calls the library refuses, after which the object must be bit-identical and the history continues.",
        "Summaries on NaN-containing traits are not asserted (ambiguous); append/incorp with a bare ndarray not exercised (raw vs scaled ambiguous).",
        "DESIGN.md §3 C15"),
    "C16": (
        "Hypothesis-generated objects, write histories and VCF text; round-trip / last-writer-wins / copy-independence oracles via a generic observable-state snapshot",
        "Generated objects of 32 classes (optional label arrays present/absent, grouped/ungrouped, non-ASCII labels, 1..3 traits): HDF5 write "
        "histories (1..4 writes with overwrite to generated file/group paths, read back equals the last object written, writing does not mutate), "
        "pandas/CSV/dict/egmap round trips with generated column names, separators and units, VCF text generated from a grammar and imported by "
        "both genotype classes (sample names, coordinates, ids, phased calls exact), copy/deepcopy equality, no shared memory, and mutation of "
        "every array of the deep copy leaving the source unchanged. "
        "Also: histories of further copies/edits on one source object for every copy entry point. Later rounds: dtype widths of every stored field varied across HDF5 overwrites (narrow->wide, wide->narrow, same and different shapes); read-back compared in value and item size.",
        "Frame formats cannot represent an absent label array (skipped there); CSV floats exact for dyadic values, 1e-12 relative otherwise (pandas parser).",
        "DESIGN.md §3 C16"),
    "C05": (
        "Hypothesis-generated populations/decisions for all 61 concrete selection-problem classes (enumerated at run time) vs exact-rational criterion definitions; metamorphic encoding/permutation/rescaling relations; recording closures for weights and transformations",
        "Classes are discovered from the package at run time (a new class is a violation until covered; RealLookAhead and the unimplemented "
        "mating problem are excluded with a printed reason). Per criterion (EBV, GEBV, Random, WGS, GWGEBV, Family, OCS, MGR, MEH, L1, L2, OHV, OPV, "
        "GenotypeBuilder, PAFD, PAU, MOGS, UC, EMBV): latentfn equals an independent Fraction/loop definition on the constructor data; subset, "
        "integer, binary and real encodings of the same contributions agree; invariance under relisting and positive rescaling; evalfn = declared "
        "weights x declared transformations (harness closures record their arguments); evaluate() row-wise equals evalfn; nlatent = len(latent). "
        "Factory sub-checks build problems from populations stored in two taxon orders with non-sorted names and compare both the data attributes "
        "and end-to-end latent values with oracle values computed from the population. "
        "Also: evalfn = declared weights x declared transformations (with their own kwargs) for all 77 factory methods, and fixed factory cases across the 1024-row chunk boundary. Later rounds: every problem object and every factory-made problem re-declared through public setters (ndecn, data, weights, transformations) and evaluated again; real vectors with totals down to 1e-30 and rescaling by 2^-100..2^100.",
        "Subsets are lists of distinct members (repeats via the integer encoding); UC factories only for inbred parents/nself=0 (variance itself is C12); "
        "haplotype factories only for unambiguous block layouts (C18); OCS/MGR/MEH factories have an independent kinship oracle for the molecular estimator only.",
        "DESIGN.md §3 C05"),
    "C06": (
        "Hypothesis-generated problems x optimiser classes; validity predicates over whatever is returned, fresh re-evaluation, O(n^2) dominance reference, brute-force optimum and exchange-neighbourhood re-scan",
        "Harness-defined subset/integer/binary/real problems (separable and not, with inequality/equality constraints, non-arange labels) and real "
        "EBV selection problems, every optimiser class with tiny budgets: returned decisions lie in the decision space (size, membership, distinct "
        "members, bounds, dtypes), reported objective/constraint values equal a fresh evaluation, multi-objective results contain no dominated "
        "member, the problem object is unchanged; SortingSubsetOptimizationAlgorithm attains the brute-force optimum over all C(n,k) subsets of "
        "separable problems; hill-climbers are 1-exchange locally optimal under (violation, score); pymoo_addon operators keep subsets valid. "
        "Also: objective units from 1e-12 to 1e15 and near-ties, population-wise (elementwise=False) evaluation with both constraint kinds, signed-slack constraints. Later rounds: position-dependent objectives and constraints; 2-4 integer-valued constraint rows of both kinds so that exact ties of aggregate violations occur. Fifth round: the box of a built real / integer problem re-declared (narrowed) through its public properties before the optimiser runs.",
        "GA runs are not replay-deterministic through the public API (C08 findings); oracles are validity predicates and every violation message carries the returned arrays.",
        "DESIGN.md §3 C06"),
    "C07": (
        "Hypothesis-generated decisions/populations for configuration classes and selection protocols; validity predicates, independent truncation criterion with an exact optimiser, permutation metamorphic relation",
        "The eight configuration classes driven directly with generated decisions (shape, membership, multiplicities: even use for subsets and "
        "binary indicators, within one of the share for real contributions, tiling law for integer counts, no pairwise exchange lowers the number "
        "of self-pairings, cross-map rows rebuilt with itertools); EBV/GEBV subset selection with the sorting optimiser chooses exactly the top "
        "candidates by an independently computed criterion and permuting/relabelling the population permutes the choice; ten protocol combinations "
        "with GA optimisers: configuration decision is the reported solution and, for multi-objective runs, a non-dominated argmax of the declared "
        "preference transformation recomputed by the harness. "
        "Also: independent OHV and UC truncation criteria with the exact optimiser incl. cross maps beyond 1024/2048 candidates, and re-use of one protocol object with settings and populations changed between uses. Later rounds: usefulness-criterion protocols with the two-/three-/four-way and dihybrid variance factories against an independent criterion whose parental shares come from the pedigree. Fifth round: the declared preference transformation in units 2^-60..2^30 and about an origin up to 2^36 away (front scores that differ by far less than their magnitude).",
        "No independent truncation criterion for OHV/UC/OCS (validity and consistency only); fronts where the default preference is NaN are labelled and skip only the argmax clause.",
        "DESIGN.md §3 C07"),
    "C08": (
        "Hypothesis-generated programs of stochastic API calls; differential re-execution after re-seeding behind different histories, explicit-rng isolation with byte-wise global-stream comparison, fresh-subprocess comparison",
        "Generated programs (1..8 calls) over mating protocols, phenotyping, sampling utilities, configuration sampling, prng.spawn and "
        "wrappers, every optimiser class, apply_jitter, EMBV factory and select(): (A) seed(s); run(P) after two different prefix histories "
        "gives bit-identical outputs, also in two fresh interpreters; (B) a component given its own generator returns identical outputs under "
        "different global seeds and leaves random/numpy.random states byte-identical. Plus one enumerated representative call per component "
        "class. Calls matching the known findings (pymoo-based optimisers, Random*Selection.problem, UnconstrainedSetGeneticAlgorithm) have "
        "exactly the affected clauses skipped and counted. "
        "Also: long-lived components (incl. copies) created before the re-seeding, and large inputs at which size-dependent branches are entered. Later rounds: every documented argument form of the four sampling utilities, including forms the tree rejects (a rejected call must leave the global streams untouched). Fifth round: a fresh child interpreter against a child interpreter that first ran a generated prefix containing the same (deap-based) optimiser under another weight vector of the same length.",
        "Prior interpreter histories are sampled (prefix programs + direct draws), not enumerated; hidden entropy that never reaches an output is invisible.",
        "DESIGN.md §3 C08"),
    "C09": (
        "Hypothesis-generated genotype matrices vs exact integer/Fraction definitions (exact 0/1 boundary)",
        "Generated-input search: phased/unphased matrices (ploidy 1/2/4, 1..300 taxa with the sizes where "
        "(1.0/d)*d != 1.0 forced, forced all-0/all-1/one-copy-different loci, every dtype argument) against "
        "integer and Fraction definitions computed in Python; boundary clauses (frequency exactly 0/1 iff fixed, "
        "afixed == not apoly, ploidy+1 genotype classes summing to n) are exact. Absence is not established. "
        "Also: statistics re-queried after in-place edits of the same object; populations of 50001 and 60000 taxa. Later rounds: read-only views of caller-owned memory edited between queries; phases/taxa/variants appended, removed, incorporated in place between two rounds of queries.",
        "Trusts numpy integer sums and Python Fraction; integer dtypes too narrow for the result are outside the domain.",
        "DESIGN.md §3 C09"),
    "C10": (
        "Hypothesis-generated breeding histories (select/truncate/mate programs); invariants checked after every step against integer allele counts",
        "Model-based history search: founders with forced fixed and single-copy loci, additive models with any signs / exact zeros / "
        "1..3 traits, 1..6 steps of sub-selection (with repeats), truncation and mating through all seven protocols, population sizes "
        "steered through 49, 98, 103, 107 (where 1/(2n) is not exactly invertible). After every step, through four input forms "
        "(phased matrix, unphased matrix, raw dosage array, frequency vector): limits equal their definition on integer counts, "
        "bracket every individual's value (oracle values and the library's own gebv), usl never rises, lsl never falls, lost alleles "
        "never reappear, limits coincide with the common value when everything is fixed. "
        "Also: models with several fixed-effect rows. Later rounds: unphased haploid and diploid views kept across selection steps and culled by select_taxa / delete_taxa / in-place remove_taxa.",
        "Histories are bounded (<= 6 steps, <= 107 taxa, <= 9 loci); diploid binary coding.",
        "DESIGN.md §3 C10"),
    "C17": (
        "Hypothesis-generated weights/sizes/tables with seeded and scripted generators vs exact-rational expected counts and validity predicates; exhaustive enumeration of small cross tables",
        "stochastic_universal_sampling: requested shape exactly, each element drawn floor or ceiling of its exact-rational expected count (exact "
        "integers demanded exactly unless a pointer lies within rounding of a subset-sum boundary), zero weights never drawn; a scripted "
        "RandomState places the offset at chosen fractions of the pointer spacing including within a few ulp of 0 and of the spacing. "
        "tiled_choice without replacement: every option q or q+1 times with exactly the remainder at q+1. axis_shuffle: only the requested "
        "slices are permuted. outcross_shuffle: multiset preserved, duplicates never increase, no pair exchange lowers them — all 858 tables "
        "over three symbols up to 3x2 enumerated, larger ones generated. "
        "Also: wide cross tables whose descent needs far more rounds than there are crosses. Later rounds: sessions of calls in a forked child (process-level state, narrow dtypes, ids congruent mod 2^8/2^16/2^32); weight totals within 1e-16..1e-2 of round values with up to 2.5e6 draws.",
        "Negative axes for axis_shuffle and non-contiguous tables for outcross_shuffle are outside the domain (undocumented / no caller).",
        "DESIGN.md §3 C17"),
    "C18": (
        "Hypothesis-generated marker layouts/genotypes/effects vs partition predicate, exact-rational apportionment bound, run-length recomputation, marker-level block sums and brute-force block-boundary doubled haploids; NaN-filling allocator makes unwritten blocks visible",
        "Layouts with clustered positions, ties, markers on equal-width boundaries and zero-length chromosomes; block totals from the chromosome "
        "count to the marker count. nhaploblk_chrom (>= 1 per chromosome, sums to total, within one of the length share), haplobin / "
        "haplobin_bounds (labels non-decreasing, within chromosomes, run-length encoding), four haplotype-matrix implementations (every entry "
        "written and finite, blocks sum to the copy's additive value), OHV/OPV/GenotypeBuilder values = ploidy x sum of best block values and "
        ">= every doubled haploid that recombines only at block boundaries (exhaustive when <= 256 choices). Cases in which some equal-width bin "
        "receives no marker (known finding F-C18-a, signature computed by the harness from the case alone) skip exactly the clauses it breaks. "
        "Also: problem objects driven through evaluate / assign block values or nbestfndr through the public setter / evaluate again. Later rounds: block values edited in place through the getter or the caller's buffer; genomic models with u_misc, several fixed-effect rows, the dominance subclass.",
        "While pybrops runs, numpy.empty is replaced by an allocator that fills with NaN / a sentinel so uninitialised blocks cannot pass by luck.",
        "DESIGN.md §3 C18"),
    "C19": (
        "Exhaustive enumeration of small point sets + Hypothesis-generated fronts vs an O(n^2) dominance reference and explicit geometric projection",
        "is_pareto_efficient: soundness (marked => not dominated in weighted objectives), completeness (unmarked => equalled or dominated by a "
        "marked point), mask == index form, efficient vector set invariant under permutation and positive rescaling — every ordered sequence of "
        "0..4 points on a {0,1,2}^2 grid under all sign patterns enumerated, larger/float sets generated. dominates(): Pareto dominance for "
        "feasible pairs, smaller violation otherwise, irreflexive, asymmetric, transitive (grid enumerated). The three distance-to-preference-"
        "vector transformations equal min-max scaling + orthogonal distance to the preference line computed by explicit projection, are "
        "translation invariant where translation is exact, and finite for constant objectives. Later rounds: numpy.empty/empty_like replaced by a NaN-filling allocator around every library call; objective units 2^-40..2^40; sel-variant tolerances carry the conditioning of the input.",
        "Translation clause only on grids where the translation is exact in binary64.",
        "DESIGN.md §3 C19"),
    "C20": (
        "Exhaustive enumeration (nrep<=2, ngen<=2, 4^4 operator behaviours) + Hypothesis-generated evolve/advance scripts; trace conformance against a value-semantics reference interpreter",
        "Instrumented operators (pure / return-same / mutate-in-place / mutate-then-new) record what they receive; a reference interpreter "
        "written from the statement predicts the exact trace (operator order, replicate, t_cur, t_max, content fingerprints, mating "
        "configuration hand-over, logging after every step). Every replicate's first evaluation sees contents equal to the initial state, the "
        "stored start containers deep-equal their snapshot and share no mutable object or array memory with anything an operator received. "
        "The small block is enumerated completely (4608 cases); random scripts add nested containers, evolve-after-evolve and advance. Later rounds: working containers fed back as stored initial state, two interleaved programmes; counts and clocks as numpy scalars, 0-d arrays, bool.",
        "Hand-over is compared by content, not identity; partially given start state is not asserted (statement silent).",
        "DESIGN.md §3 C20"),
}

NOT_APPLICABLE = {
}

PENDING_REASON = "check not built yet in this revision of /verif (generated-input design in DESIGN.md §3); not claimed until it runs quietly on the unchanged tree"


def main():
    allids = []
    with open(os.path.join(HERE, "properties.jsonl")) as fh:
        for ln in fh:
            if ln.strip():
                allids.append(json.loads(ln)["id"])
    checks = []
    for pid in allids:
        if pid not in CHECKS:
            continue
        tech, text, note, ref = CHECKS[pid]
        checks.append({
            "property_id": pid,
            "quick_cmd": "./check %s --tier quick" % pid,
            "thorough_cmd": "./check %s --tier thorough" % pid,
            "evidence_file": "/verif/evidence/%s.json" % pid,
            "replay_cmd_template": "./check %s --replay {path}" % pid,
            "engine": "pbt",
            "level_claimed": {"category": "exploration", "text": text, "design_ref": ref},
            "level_note": note,
            "technique": tech,
        })
    na = []
    for pid in allids:
        if pid in CHECKS:
            continue
        na.append({"property_id": pid, "reason": NOT_APPLICABLE.get(pid, PENDING_REASON)})
    man = {
        "version": 1,
        "setup_cmd": "sh setup.sh",
        "hooks": {
            "guard": "PYBROPS_VERIF",
            "enable": "no source hooks: every observation point is a public return value or attribute; "
                      "./check exports PYBROPS_VERIF=1 and imports pybrops from /repo's working tree",
            "baseline_off_cmd": "cd /repo && /venv/bin/python -m pytest -ra -q -p no:cacheprovider --timeout=900 "
                                "--continue-on-collection-errors",
            "source_commits": [],
            "add_only": True,
        },
        "engines": [{
            "name": "pbt", "path": "/verif/pbt",
            "serves_properties": sorted(CHECKS),
            "kind_free_text": "Hypothesis-driven generated-input search (values, operation programs, scripted RNGs) "
                              "against independent oracles; own runner with sharding, collect-then-shrink, replay "
                              "files, regression tier and known-findings handling",
        }],
        "checks": checks,
        "not_applicable": na,
        "notes": "Exit codes: 0 held / 1 VIOLATION lines / 2 harness error. VERIF_SEED selects the Hypothesis seed. "
                 "Repairs of genuine defects are 'fix:' commits in /repo listed in known_findings.json.",
    }
    with open(os.path.join(HERE, "MANIFEST.json"), "w") as fh:
        json.dump(man, fh, indent=1)
        fh.write("\n")
    print("MANIFEST.json: %d checks, %d not claimed" % (len(checks), len(na)))


if __name__ == "__main__":
    main()
