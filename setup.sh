#!/bin/sh
# offline setup: make sure hypothesis is importable by /venv/bin/python; atheris (optional second driver) into .deps
HERE="$(cd "$(dirname "$0")" && pwd)"
cd "$HERE" || exit 2
export PIP_NO_INDEX=1
if ! /venv/bin/python -c "import hypothesis" 2>/dev/null; then
  /venv/bin/pip install --no-index --find-links /opt/veriftools/wheels hypothesis || exit 2
fi
if ! PYTHONPATH="$HERE/.deps" /venv/bin/python -c "import atheris" 2>/dev/null; then
  /venv/bin/pip install --no-index --find-links /opt/veriftools/wheels --target "$HERE/.deps" atheris >/dev/null 2>&1 \
    || echo "note: atheris not installed; thorough-tier fuzz drivers fall back to Hypothesis only"
fi
mkdir -p "$HERE/evidence" "$HERE/replays" "$HERE/.tmp"
/venv/bin/python -c "import hypothesis, numpy, scipy, pandas, h5py, pymoo; print('setup ok: hypothesis', hypothesis.__version__)"
