#!/usr/bin/env python3
"""maintain /verif/known_findings.json
  kf.py merge <PROP>                              move entries of known_findings.d/<PROP>.json into known_findings.json
  kf.py fixed <PROP> <KEY> <COMMIT> <REPLAY> <WHAT FAILED...>
"""
import json, os, sys
HERE = os.path.dirname(os.path.dirname(os.path.abspath(__file__)))
P = os.path.join(HERE, "known_findings.json")
d = json.load(open(P))
cmd = sys.argv[1]
if cmd == "merge":
    prop = sys.argv[2]
    src = os.path.join(HERE, "known_findings.d", prop + ".json")
    new = json.load(open(src))["findings"]
    keys = {f["key"] for f in d["findings"]}
    for f in new:
        if f["key"] in keys:
            print("skip (already listed):", f["key"]); continue
        d["findings"].append(f); print("merged", f["key"], f["status"])
    os.remove(src)
elif cmd == "fixed":
    prop, key, commit, replay = sys.argv[2:6]
    what = " ".join(sys.argv[6:])
    d["findings"] = [f for f in d["findings"] if f["key"] != key]
    d["findings"].append({"property": prop, "key": key, "status": "fixed", "commit": commit,
                          "line": "fixed: property=%s %s %s" % (prop, commit, what), "what": what, "replay": replay})
    print("fixed", key)
json.dump(d, open(P, "w"), indent=1)
