#!/venv/bin/python
"""CRLF-safe edit of specific lines: lineedit.py <file> <old> <new> <line> [<line> ...]  (old must occur once on each line)"""
import sys
p, old, new = sys.argv[1:4]
lns = [int(x) for x in sys.argv[4:]]
s = open(p, newline='').read()
sep = '\r\n' if '\r\n' in s else '\n'
lines = s.split(sep)
for ln in lns:
    assert lines[ln - 1].count(old) == 1, (ln, lines[ln - 1])
    lines[ln - 1] = lines[ln - 1].replace(old, new)
open(p, 'w', newline='').write(sep.join(lines))
