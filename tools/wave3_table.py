#!/venv/bin/python
"""Print the DESIGN §6 / seeded/README table of the third wave of seeded changes from seeded/<id>/meta.json."""
import json
import os

desc = {
"C01-u1": ("mat_meiosis memoises the recombining markers in a module global keyed on the identity of the xoprob array", "the crossover-probability array edited in place between two mate() calls", "missed"),
"C02-u1": ("uniform draws taken in single precision: a floor of 2^-24 under every crossover probability", "stored probabilities far below 1e-8, observed over >= 10^8 interval-meioses", "missed"),
"C03-u1": ("concat_vrnt drops every variant name when only some operands have names (all -> any)", "operands of which only some carry vrnt_name", "caught"),
"C04-u1": ("fapoly derived from the reciprocal-multiplied favourable-allele frequency", "ploidy x ntaxa in {49, 98, 103, ...} and a fixed favourable allele", "caught"),
"C05-u1": ("optimal-contribution subset problem caches 1/ndecn at construction", "`prob.ndecn = k2` through the public setter, then a vector of the new size", "missed"),
"C06-u1": ("subset hill-climbers skip proposals that put back the member removed by the previous exchange", "an objective that depends on the POSITION of members in the decision vector", "missed"),
"C07-u1": ("three-way variance matrix reports parental contributions (1/4,1/4,1/2) instead of (1/2,1/4,1/4)", "a usefulness-criterion protocol used with the three-way factory", "missed"),
"C08-u1": ("tiled_choice accepts the documented integer population by delegating without forwarding rng", "integer population (raises on the unchanged tree, F-C17-b) with an explicit rng", "missed"),
"C09-u1": ("allele column sums memoised for read-only buffers, keyed on the identity of the stored array", "a read-only view of caller-owned memory, edited by the caller between two queries", "missed"),
"C10-u1": ("genotype-matrix afreq computed with a reciprocal", "49/98/103 taxa with a fixed locus", "caught"),
"C11-u1": ("interp_genpos memoises its last result on the identity of the query arrays", "the same query arrays with contents changed in place, no build_spline in between", "missed"),
"C12-u1": ("subset UC protocol takes the parental mean from a GEBV matrix passed in the bvmat slot", "protocol.problem() with a breeding-value matrix in another taxa order (or of another model)", "missed"),
"C13-u1": ("inverse() cached together with the array object it was computed from", "the stored matrix changed in place (jitter, item assignment, in-place operator), then inverse()/min_inbreeding()", "missed"),
"C14-u1": ("records of ungenotyped taxa dropped by index LABEL", "a phenotype table with repeated row labels (stacked trials) and a taxon absent from the genotypes", "missed"),
"C15-u1": ("insert_taxa converts any array-like operand with numpy.array", "operand = breeding-value matrix of a sibling/parent class (yields its scaled values)", "missed"),
"C16-u1": ("HDF5 writer clears the whole target group before writing", "an object saved into a group that already holds other objects below it", "caught"),
"C17-u1": ("outcross objective sorts in a module-level scratch buffer keyed by shape only", "an earlier call in the same process with a narrower integer dtype, then ids congruent mod 256", "missed"),
"C18-u1": ("OPV problem caches the block maxima in the haplomat setter", "block values edited in place through the getter / the caller's buffer", "missed"),
"C19-u1": ("scale vector allocated with numpy.empty, constant objectives never written", "a constant objective and a recycled buffer holding inf/NaN (allocator state)", "missed"),
"C20-u1": ("reset() clears the old working containers in place before copying the stored start state", "the programme's own working containers fed back as its stored initial state (burn-in idiom)", "missed"),
}

for k, (a, b, first) in desc.items():
    f = os.path.join(os.path.dirname(os.path.abspath(__file__)), "..", "seeded", k, "meta.json")
    m = json.load(open(f))
    ch = m["checks"].get(m["property"], {})
    cl = ", ".join(sorted(set(x.split("/", 1)[1] for x in ch.get("clauses", [])))[:2])
    print("| %s | %s | %s | %s | %s | %s |" % (k, a, b, first, ch.get("verdict", "?"), cl))
