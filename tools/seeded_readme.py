#!/venv/bin/python
"""Regenerate seeded/README.md from seeded/<id>/meta.json (run after tools/seedeval.py)."""
import glob
import json
import os

HERE = os.path.join(os.path.dirname(os.path.abspath(__file__)), "..", "seeded")
HEAD = """# Independently written property-breaking changes

Each directory holds a change written by a fresh sub-agent that was given only the text of one property and its own git
worktree of rzshrote/pybrops (nothing from /verif): `patch.diff`, `demo.py` (exits 0 on the unchanged tree, non-zero with the
change; it loads the two numpy aliases from `seeded/shim.py`), `notes.md` (what it needs in order to manifest) and `meta.json`
(what was run here: demo without / with the change, baseline suite with the change = still 92 passed, and the registered quick
check of the property against the patched tree, executed with `tools/seedeval.py` in a scratch worktree that is removed
afterwards; `history` = what the first evaluation said).  None of these changes is ever committed to the repository.

Wave 1 (`C??-1`, `C??-2`): realistic slips that need something specific to manifest. Wave 2 (`C??-h1`, `C??-h2`): the authors were
additionally told that a property-based harness with small random inputs exists and asked for changes it would plausibly miss.
Waves 3 and 4 (`C??-u1`, `C??-u2`): the authors were given a description of everything the harness generated after the previous
wave and asked for a change that needs a different mechanism.  Wave 5 (`C??-w5`): as wave 1 (property text and worktree only), with a
hint at the sentences of the property that earlier waves had addressed least.  DESIGN.md §6 describes what each wave led to.
"""
WAVES = [("Wave 1", ("-1", "-2")), ("Wave 2 (adversarial)", ("-h1", "-h2")), ("Wave 3", ("-u1",)), ("Wave 4", ("-u2",)), ("Wave 5", ("-w5",))]
metas = {}
for f in glob.glob(os.path.join(HERE, "*", "meta.json")):
    m = json.load(open(f))
    metas[m["id"]] = m
out = [HEAD]
tot = caught = 0
for title, sufs in WAVES:
    out.append("\n## %s\n\n| id | confirmed | quick check | first clauses that fired | first evaluation / note |\n|---|---|---|---|---|" % title)
    for sid in sorted(k for k in metas if any(k.endswith(s) for s in sufs)):
        m = metas[sid]
        parts = []
        allcl = []
        for c, v in m.get("checks", {}).items():
            parts.append(v["verdict"] if c == m["property"] else "%s (%s)" % (v["verdict"], c))
            if c == m["property"]:
                allcl = sorted(set(x.split("/", 1)[1] for x in v.get("clauses", [])))[:3]
        note = m.get("history", "")
        if "scope" in m:
            note = (note + "; " if note else "") + m["scope"]
            parts = ["not asserted (outside the property)"]
        else:
            tot += 1
            caught += m["checks"].get(m["property"], {}).get("verdict") == "CAUGHT"
        out.append("| %s | %s | %s | %s | %s |" % (sid, "yes" if m.get("confirmed") else "NO", "; ".join(parts), ", ".join(allcl), note))
out.append("\n%d of the %d changes judged inside their property are caught by the quick tier of that property.\n" % (caught, tot))
open(os.path.join(HERE, "README.md"), "w").write("\n".join(out))
print("README: %d/%d caught, %d entries" % (caught, tot, len(metas)))
