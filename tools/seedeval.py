#!/venv/bin/python
"""Confirm an independently written property-breaking change and run the registered check against it.

usage: tools/seedeval.py <PROP> <dir with patch.diff demo.py notes.md> <seeded id> [--checks C01,C03] [--tier quick]
       (the directory may be /verif/seeded/<id> itself: re-evaluates a kept change in place)

Steps (all in a scratch worktree of /repo HEAD under /tmp, removed afterwards):
  1. demo on the clean tree        -> must exit 0
  2. git apply patch; demo         -> must exit non-zero
  3. baseline pytest with the patch -> must still report 92 passed
  4. ./check <PROP> against the patched tree (PYBROPS_REPO=<worktree>) -> CAUGHT (exit 1) / MISSED (exit 0)
Writes /verif/seeded/<id>/{patch.diff, demo.py, notes.md, meta.json}.
"""
import json
import os
import re
import shutil
import subprocess
import sys
import time

args = sys.argv[1:]
checks = None
tier = "quick"
if "--checks" in args:
    i = args.index("--checks"); checks = args[i + 1].split(","); del args[i:i + 2]
if "--tier" in args:
    i = args.index("--tier"); tier = args[i + 1]; del args[i:i + 2]
prop, src, sid = args
checks = checks or [prop]
wt = "/tmp/sv_%s" % sid
out = "/verif/seeded/%s" % sid
meta = {"id": sid, "property": prop, "source": "fresh sub-agent given only the property text and its own worktree", "steps": {}}


def run(cmd, env=None, cwd=None, timeout=3600):
    t0 = time.time()
    r = subprocess.run(cmd, shell=isinstance(cmd, str), capture_output=True, text=True, env=env, cwd=cwd, timeout=timeout)
    return r.returncode, (r.stdout + r.stderr), time.time() - t0


subprocess.run("git -C /repo worktree remove --force %s" % wt, shell=True, capture_output=True)
rc, o, _ = run("git -C /repo worktree add -q --detach %s HEAD" % wt)
assert rc == 0, o
try:
    env = dict(os.environ, PYTHONPATH=wt, PYTHONDONTWRITEBYTECODE="1")
    demo = os.path.join(src, "demo.py")
    rc0, o0, _ = run(["/venv/bin/python", demo], env=env, cwd=src)
    meta["steps"]["demo_on_clean_tree"] = {"exit": rc0, "tail": o0[-300:]}
    rca, oa, _ = run("git -C %s apply %s" % (wt, os.path.join(src, "patch.diff")))
    meta["steps"]["git_apply"] = {"exit": rca, "tail": oa[-300:]}
    rc1, o1, _ = run(["/venv/bin/python", demo], env=env, cwd=src)
    meta["steps"]["demo_with_change"] = {"exit": rc1, "tail": o1[-600:]}
    rct, ot, dt = run("/venv/bin/python -m pytest -q -p no:cacheprovider --timeout=900 --continue-on-collection-errors 2>&1 | tail -1", cwd=wt)
    meta["steps"]["baseline_with_change"] = {"summary": ot.strip()[-200:], "wall_s": round(dt, 1)}
    passed = re.search(r"(\d+) passed", ot)
    confirmed = rc0 == 0 and rca == 0 and rc1 != 0 and passed is not None and int(passed.group(1)) == 92
    meta["confirmed"] = bool(confirmed)
    meta["checks"] = {}
    if confirmed:
        for c in checks:
            cenv = dict(os.environ, PYBROPS_REPO=wt, PBT_REPLAY_DIR=os.path.join(wt, "_replays"))
            rcc, oc, dtc = run(["/verif/check", c, "--tier", tier, "--no-evidence"], env=cenv, cwd="/verif", timeout=7200)
            clauses = [ln.split("clause=")[1].split(": ")[0] for ln in oc.splitlines() if ln.startswith("violation in")]
            subs = [ln.split("violation in ")[1].split(" ")[0] for ln in oc.splitlines() if ln.startswith("violation in")]
            meta["checks"][c] = {"tier": tier, "exit": rcc, "verdict": "CAUGHT" if rcc == 1 else ("MISSED" if rcc == 0 else "HARNESS-ERROR"),
                                 "clauses": sorted(set("%s/%s" % (a, b) for a, b in zip(subs, clauses))), "wall_s": round(dtc, 1),
                                 "tail": oc[-400:] if rcc != 1 else ""}
    os.makedirs(out, exist_ok=True)
    # keep the curated fields of an earlier evaluation (who wrote the change, what the first evaluation said)
    try:
        old = json.load(open(os.path.join(out, "meta.json")))
        for k in ("source", "history"):
            if k in old:
                meta[k] = old[k]
    except (OSError, ValueError):
        pass
    for fn in ("patch.diff", "demo.py", "notes.md"):
        if os.path.exists(os.path.join(src, fn)) and os.path.realpath(src) != os.path.realpath(out):
            shutil.copy(os.path.join(src, fn), os.path.join(out, fn))
    # the demonstrations load the numpy shim the authors were given; point the kept copy at seeded/shim.py
    dp = os.path.join(out, "demo.py")
    if os.path.exists(dp):
        txt = open(dp).read().replace("open('/tmp/seedkit/shim.py')", "open(__import__('os').path.join(__import__('os').path.dirname(__import__('os').path.abspath(__file__)), '..', 'shim.py'))")
        open(dp, "w").write(txt)
    with open(os.path.join(out, "meta.json"), "w") as fh:
        json.dump(meta, fh, indent=1)
    print(sid, "confirmed=%s" % meta["confirmed"], {c: (v["verdict"], v["clauses"][:4], v["wall_s"]) for c, v in meta["checks"].items()})
    if not meta["confirmed"]:
        print(json.dumps(meta["steps"], indent=1)[:1500])
finally:
    subprocess.run("git -C /repo worktree remove --force %s" % wt, shell=True, capture_output=True)
    shutil.rmtree(wt, ignore_errors=True)
