#!/venv/bin/python
"""Apply one textual mutant to a scratch copy of /repo/pybrops and run a check against it.

usage: tools/mutant.py <PROP> <relpath under repo> <old> <new> [-- extra check args]
Prints CAUGHT/MISSED, the clauses that fired and the wall time; removes the scratch copy.
"""
import os, shutil, subprocess, sys, tempfile, time
args = sys.argv[1:]
extra = []
if "--" in args:
    k = args.index("--"); extra = args[k + 1:]; args = args[:k]
prop, rel, old, new = args
d = tempfile.mkdtemp(prefix="mut_", dir="/tmp")
try:
    shutil.copytree("/repo/pybrops", os.path.join(d, "pybrops"), ignore=shutil.ignore_patterns("__pycache__"))
    path = os.path.join(d, rel)
    s = open(path, newline="").read()
    if "\r\n" in s:
        old = old.replace("\n", "\r\n"); new = new.replace("\n", "\r\n")
    cnt = s.count(old)
    if cnt != 1:
        print("MUTANT-ERROR: pattern occurs %d times in %s" % (cnt, rel)); sys.exit(3)
    open(path, "w", newline="").write(s.replace(old, new))
    r = subprocess.run([sys.executable, "-c", "import sys; sys.path.insert(0,'/verif'); sys.path.insert(0,%r); import os; os.environ['PYBROPS_REPO']=%r; from pbt import compat" % (d, d)], capture_output=True, text=True)
    if r.returncode != 0:
        print("MUTANT-ERROR: does not import\n" + r.stderr[-500:]); sys.exit(3)
    t0 = time.time()
    env = dict(os.environ, PYBROPS_REPO=d, PBT_REPLAY_DIR=os.path.join(d, "replays"))
    r = subprocess.run(["/verif/check", prop, "--no-evidence"] + extra, capture_output=True, text=True, env=env, cwd="/verif")
    dt = time.time() - t0
    clauses = [ln.split("clause=")[1].split(":")[0] for ln in r.stdout.splitlines() if ln.startswith("violation in")]
    print("%s exit=%d wall=%.1fs clauses=%s" % ("CAUGHT" if r.returncode == 1 else ("HARNESS-ERROR" if r.returncode == 2 else "MISSED"), r.returncode, dt, clauses))
    if r.returncode == 2:
        print(r.stderr[-1500:])
finally:
    shutil.rmtree(d, ignore_errors=True)
    # replays written by a mutant run are not kept
