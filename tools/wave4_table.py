#!/venv/bin/python
"""Print the DESIGN §6 / seeded/README table of the fourth wave of seeded changes from seeded/<id>/meta.json."""
import json
import os

desc = {
"C01-u2": ("FourWayDHCross family labels built with `repeat(..., nmating * nprogeny)`", "both count arrays in one narrow integer dtype and a per-cross product beyond its range (int8 16 x 10)"),
"C02-u2": ("ExtendedGeneticMap.build_spline tells scipy the rows are sorted (`assume_sorted=True`)", "Extended map class, `auto_group=False`, rows not in physical order, varying recombination rate"),
"C03-u2": ("group_taxa finds group boundaries with numpy.diff(prepend=nan): ids compared as float64", "two distinct group ids above 2^53 that round to the same float64"),
"C04-u2": ("fafixed decided from fafreq == 1.0", "ploidy x ntaxa in {49, 98, 103, ...} and a fixed favourable allele"),
"C05-u2": ("family-EBV real problem stops normalising when the total is below 1e-10 (guard copied from sibling classes)", "an in-bounds contribution vector with total in (0, 1e-10)"),
"C06-u2": ("sorting hill-climber loses `best_eqcv = prop_eqcv` in the tied branch", "equality + another constraint row with integer-valued data: exchange with bit-equal aggregate violation but a changed equality row"),
"C07-u2": ("outcross_shuffle skips exchanges judged useless from a membership cache that is never refreshed", ">= 3 parents per cross, forced duplicates, a member that leaves a cross and must return"),
"C08-u2": ("G_E_Phenotyping.__deepcopy__ deep-copies its generator", "a deep copy made before prng.seed() and used after it"),
"C09-u2": ("ploidy of a phased matrix recorded by the `mat` setter", "phases appended / removed / incorporated in place (mutators bypass the setter), then a frequency statistic"),
"C10-u2": ("DenseGenotypeMatrix.delete_taxa no longer forwards ploidy", "unphased matrix with ploidy != 2, population culled with delete_taxa"),
"C11-u2": ("gdist1g finds chromosome starts with numpy.diff(prepend=-1)", "a chromosome labelled -1 that is the smallest label of the query"),
"C12-u2": ("two-way variance: each block pair visited once, signed distance for off-diagonal blocks", "a genetic map that is not monotone in stored order, split over several chunks"),
"C13-u2": ("PSD predicate through asfortranarray + eigvalsh(overwrite_a=True)", "matrix permuted in place (column-major afterwards), predicate queried, object observed again"),
"C14-u2": ("table-side taxa names stripped before the join, genotype-side not", "taxon names with leading / trailing white space"),
"C15-u2": ("append_taxa checks for missing group labels after extending values and names", "a refused call (documented TypeError) after which the same object is used"),
"C16-u2": ("HDF5 overwrite writes into the old dataset when shape and dtype kind match", "float64/int64 written over a same-shape float32/int8 dataset, values needing the wider type"),
"C17-u2": ("SUS skips normalisation when the weight total is `isclose` to 1", "total within 1e-5 of 1 but not 1, and enough draws that k x error >= 1"),
"C18-u2": ("OHV block values from gpmod.u (stacked [u_misc; u_a]) instead of u_a", "a genomic model with non-empty u_misc"),
"C19-u2": ("zero-range guard written with numpy.where: 1/0 evaluated and discarded", "numpy.seterr(divide='raise') or warnings as errors in the calling process"),
"C20-u2": ("evolve: `if not isinstance(ngen, int): ngen = t_max`", "generation count given as a numpy integer scalar, t_max != ngen"),
}

for k, (a, b) in desc.items():
    f = os.path.join(os.path.dirname(os.path.abspath(__file__)), "..", "seeded", k, "meta.json")
    m = json.load(open(f))
    chks = m["checks"]
    ch = chks.get(m["property"], {})
    first = m.get("history", "?").split(" by the check")[0]
    if first not in ("CAUGHT", "MISSED"):
        first = "class not generated"
    if "scope" in m:
        verdict, cl = "outside the property (not asserted)", ""
    else:
        verdict = ch.get("verdict", "?")
        cl = ", ".join(sorted(set(x.split("/", 1)[1] for x in ch.get("clauses", [])))[:2])
    extra = "; also C11" if k == "C02-u2" and chks.get("C11", {}).get("verdict") == "CAUGHT" else ""
    print("| %s | %s | %s | %s | %s%s | %s |" % (k, a, b, first.lower(), verdict, extra, cl))
