import sys
# usage: sub.py file old new  (exact, once; preserves line endings)
p,old,new=sys.argv[1:4]
s=open(p,newline='').read()
crlf = '\r\n' in s
if crlf:
    old=old.replace('\n','\r\n'); new=new.replace('\n','\r\n')
assert s.count(old)==1, (s.count(old))
open(p,'w',newline='').write(s.replace(old,new))
