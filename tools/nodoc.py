import sys, ast, io, tokenize
# print source lines [a,b] of file without docstrings/comments-only lines
path=sys.argv[1]; a=int(sys.argv[2]) if len(sys.argv)>2 else 1; b=int(sys.argv[3]) if len(sys.argv)>3 else 10**9
src=open(path).read()
tree=ast.parse(src)
skip=set()
for node in ast.walk(tree):
    if isinstance(node,(ast.FunctionDef,ast.ClassDef,ast.AsyncFunctionDef,ast.Module)):
        body=getattr(node,'body',[])
        if body and isinstance(body[0],ast.Expr) and isinstance(getattr(body[0],'value',None),ast.Constant) and isinstance(body[0].value.value,str):
            for l in range(body[0].lineno, body[0].end_lineno+1): skip.add(l)
for i,l in enumerate(src.splitlines(),1):
    if i<a or i>b or i in skip: continue
    if not l.strip(): continue
    if l.strip().startswith('#'): continue
    print("%d\t%s"%(i,l))
