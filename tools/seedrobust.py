#!/venv/bin/python
"""Re-run the quick check of every seeded change at another VERIF_SEED (patch applied in a scratch worktree; no demo / baseline
re-confirmation).  usage: tools/seedrobust.py <seed> [id ...]   -> appends to seeded/robustness.json {id: {seed: verdict}}"""
import json
import os
import subprocess
import sys

seed = sys.argv[1]
HERE = os.path.join(os.path.dirname(os.path.abspath(__file__)), "..")
ids = sys.argv[2:] or sorted(d for d in os.listdir(os.path.join(HERE, "seeded")) if os.path.isdir(os.path.join(HERE, "seeded", d)))
out = os.environ.get("SEEDROBUST_OUT") or os.path.join(HERE, "seeded", "robustness.json")
for sid in ids:
    meta = json.load(open(os.path.join(HERE, "seeded", sid, "meta.json")))
    if "scope" in meta or "base" in meta:
        continue
    prop = meta["property"]
    wt = "/tmp/sr_%s_%s" % (sid, seed)
    subprocess.run("git -C /repo worktree remove --force %s" % wt, shell=True, capture_output=True)
    r = subprocess.run("git -C /repo worktree add -q --detach %s HEAD && git -C %s apply %s" % (wt, wt, os.path.join(HERE, "seeded", sid, "patch.diff")),
                       shell=True, capture_output=True, text=True)
    try:
        if r.returncode:
            verdict = "PATCH-DOES-NOT-APPLY"
        else:
            env = dict(os.environ, PYBROPS_REPO=wt, PBT_REPLAY_DIR=os.path.join(wt, "_replays"), VERIF_SEED=seed)
            c = subprocess.run(["/verif/check", prop, "--tier", "quick", "--no-evidence"] + (["--jobs", os.environ["SEEDROBUST_JOBS"]] if os.environ.get("SEEDROBUST_JOBS") else []), env=env, cwd=HERE, capture_output=True, text=True, timeout=7200)
            verdict = {1: "CAUGHT", 0: "MISSED"}.get(c.returncode, "HARNESS-ERROR")
    finally:
        subprocess.run("git -C /repo worktree remove --force %s" % wt, shell=True, capture_output=True)
    try:
        d = json.load(open(out))
    except (OSError, ValueError):
        d = {}
    d.setdefault(sid, {})[seed] = verdict
    json.dump(d, open(out, "w"), indent=1, sort_keys=True)
    print(sid, seed, verdict, flush=True)
